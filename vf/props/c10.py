"""C10 — the front end is total: a scenario or a located syntax error, never a crash.

Stage A (no execution): Hypothesis draws (seed program of the Scenic corpus, window, <= 4
  mutations); the mutant goes through the pipeline `scenic.scenarioFromString` runs before it
  executes anything (parse_string -> compileScenicAST -> astToSource -> compile()).  Allowed: it
  returns, or raises ScenicSyntaxError with 1 <= lineno <= lines + 1.  Anything else is a violation.
Stage B (subset, child process, alarm): `scenic.scenarioFromString(mutant)`; whatever happens,
  the compiler's global state (scenic.syntax.veneer) is inactive afterwards.
Stage C (finite, enumerated): every grammar form shown in docs/reference instantiated with
  typed placeholders compiles; documented precedences have the documented parse tree.
"""

from __future__ import annotations

import ast
import io
import json
import os
import re
import select
import signal
import sys
import time
import tokenize

from hypothesis import strategies as st

from vf import c10_docs, c10_mut, core, corpus

PROP = "C10"
NEEDS_PARSER = True
FLOOR = 0.45
RULE = ("Stage A/B: Hypothesis draws a program of the Scenic corpus (examples, library and test "
        ".scenic files, string literals of the test-suite, documentation code blocks), a window of "
        "<= ~15-25 lines of it, and 1-4 mutations (character delete/insert/replace/swap/truncate; "
        "token delete/duplicate/swap/replace by another token or by a keyword/operator dictionary "
        "entry/insert; re-indent, join, split, duplicate, delete, swap lines; wrap tokens in "
        "brackets; insert a statement putting a Scenic-only expression into an assignment-target, "
        "decorator, f-string, del, for-target, augmented-assignment, annotation, parameter, "
        "import, pattern ... position).  Non-trivial = the mutant differs from its seed and "
        "Python's tokenizer alone does not reject it.  Stage C: all documented grammar forms "
        "(always non-trivial).  Distinct = SHA-1 of the case.")
ASSUMPTIONS = [
    "the pipeline judged is the one scenic.syntax.translator.compileStream runs before executing "
    "the compiled code: parse_string, compileScenicAST, astToSource, compileTranslatedTree, with "
    "filename '<string>' as scenarioFromString uses",
    "input texts are str objects encodable as UTF-8 (what scenarioFromString accepts)",
    "RecursionError is judged only for inputs whose bracket/indent/operator nesting is < 50 and "
    "only if it persists at a 20x larger recursion limit",
    "a slow case is a violation only if it takes >= 50x the expected time for its length twice",
    "stage B never judges exceptions raised by executing user code, only the veneer state after; "
    "its three entries are scenarioFromString, scenarioFromFile on a real file, and a correct "
    "program importing a Scenic module that holds the mutant",
    "half of the stage-A cases are compiled under the name of a real file holding the text (as "
    "scenarioFromFile does), so that error texts are completed from the file",
]

_fe = {}


def front_end():
    if not _fe:
        import numpy  # noqa: F401  (loaded here so that forked stage-B children find it loaded)
        import scenic  # noqa: F401
        from scenic.core.errors import ScenicSyntaxError
        from scenic.syntax import translator
        from scenic.syntax.compiler import compileScenicAST
        from scenic.syntax.parser import parse_string

        _fe.update(parse=parse_string, compile=compileScenicAST, err=ScenicSyntaxError,
                   unparse=translator.astToSource, pycompile=translator.compileTranslatedTree)
        # warm-up: the first compilation in a process pays ~1.5 s of lazy imports (trimesh, rtree
        # ...); doing it once here keeps the forked stage-B children cheap
        scenic.scenarioFromString("ego = new Object at (1, 2)\nrequire ego.x > 0\n")
        from scenic.syntax import veneer

        if veneer.isActive():
            raise core.HarnessError("veneer active after the warm-up compilation")
    return _fe


def exc_sig(e):
    """core.exc_signature with the numbers of pegen's generated helper rules removed (they shift
    whenever the grammar is edited)."""
    sig = re.sub(r"_(tmp|loop\d|gather)_\d+", r"_\1", core.exc_signature(e))
    import traceback

    tb = traceback.extract_tb(e.__traceback__)
    if tb and tb[-1].filename.endswith("/tokenize.py"):
        # raised by the tokenizer: which grammar rule happened to ask for the next token is noise
        sig = f"{type(e).__name__}@tokenizer"
    if sig.endswith((":compileTranslatedTree", ":astToSource")):
        # raised by a builtin (compile / ast.unparse) on the tree Scenic produced: the frame says
        # nothing about the cause, the message does
        msg = re.sub(r"<[^>]*>|stageA\.scenic|0x[0-9a-f]+|\d+", "N", str(e))
        sig += ":" + re.sub(r"'[^']*'", "Q", msg)[:50]
    return sig


def run_pipeline(src, filename="<string>"):
    """The part of compileStream that precedes execution.  Returns the stage reached."""
    fe = front_end()
    src.encode("utf-8")  # scenarioFromString does this first
    tree = fe["parse"](src, "exec", filename=filename)
    py, _ = fe["compile"](tree, filename=filename)
    fe["unparse"](py)
    fe["pycompile"](py, filename)
    return "compiled"


def count_lines(src):
    return max(src.count("\n"), len(re.findall(r"\r\n|\r|\n", src))) + 1


def nesting_estimate(src):
    depth = best = 0
    for ch in src:
        if ch in "([{":
            depth += 1
            best = max(best, depth)
        elif ch in ")]}":
            depth = max(0, depth - 1)
    indent = 0
    ops = 0
    for ln in src.split("\n"):
        ind = len(ln) - len(ln.lstrip(" \t"))
        indent = max(indent, ind)
        toks = c10_mut.tokens(ln)
        ops = max(ops, sum(1 for t in toks if t.strip()))
    # every token may open one level (prefix operators, `not not ...`, chained binary operators)
    return best + indent + ops


def python_tokenizer_accepts(src):
    try:
        for _ in tokenize.generate_tokens(io.StringIO(src).readline):
            pass
        return True
    except (tokenize.TokenError, SyntaxError, IndentationError, ValueError, SystemError):
        # SystemError: CPython 3.12.1's C tokenizer fails that way on some malformed inputs
        return False


def expected_seconds(src):
    return 0.05 + len(src) / 1500.0


def _stage_a_file(src):
    """A real file holding src (errors of real files are completed from the file's text)."""
    d = f"/var/tmp/vf-c10-{os.getpid()}"
    os.makedirs(d, exist_ok=True)
    path = os.path.join(d, "stageA.scenic")
    with open(path, "wb") as f:
        f.write(src.encode("utf-8"))
    return path


def judge_text(src, out, label="stageA", asfile=False):
    """Stage A on one text; failures are added to `out`.  Returns the outcome kind."""
    fe = front_end()
    nlines = count_lines(src)
    filename = "<string>"
    if asfile:
        try:
            filename = _stage_a_file(src)
            label += ":file"
        except (OSError, UnicodeEncodeError):
            filename = "<string>"
    t0 = time.perf_counter()
    try:
        run_pipeline(src, filename)
        kind = "ok"
    except fe["err"] as e:
        kind = "syntax-error"
        ln = getattr(e, "lineno", None)
        if not isinstance(ln, int) or isinstance(ln, bool):
            out.fail(f"{label}|syntax-error-without-line:{exc_sig(e)}",
                     source=src, error=repr(e)[:300], lineno=repr(ln))
        elif not (1 <= ln <= nlines + 1):
            out.fail(f"{label}|syntax-error-line-outside-input:{exc_sig(e)}",
                     source=src, error=repr(e)[:300], lineno=ln, lines=nlines)
    except RecursionError as e:
        kind = "recursion"
        est = nesting_estimate(src)
        if est < 50:
            old = sys.getrecursionlimit()
            sys.setrecursionlimit(old * 20)
            try:
                try:
                    run_pipeline(src, filename)
                    again = False
                except RecursionError:
                    again = True
                except Exception:
                    again = False
            finally:
                sys.setrecursionlimit(old)
            if again:
                out.fail(f"{label}|{exc_sig(e)}", source=src, nesting=est,
                         error="RecursionError also at 20x the recursion limit")
            else:
                out.cls("recursion-at-default-limit-only")
        else:
            out.cls("recursion:deep-input")
    except UnicodeEncodeError:
        kind = "not-utf8"
    except SystemError as e:
        # a defect of CPython's own tokenizer (tokenize.py: "returned a result with an exception
        # set"), not of Scenic: not judged
        import traceback

        tb = traceback.extract_tb(e.__traceback__)
        if any(fr.filename.endswith("tokenize.py") for fr in tb[-3:]):
            kind = "cpython-tokenizer-SystemError"
            out.inconclusive = True
        else:
            kind = "crash"
            out.fail(f"{label}|{exc_sig(e)}", source=src, error=repr(e)[:300])
    except Exception as e:  # internal error escaping the front end
        kind = "crash"
        out.fail(f"{label}|{exc_sig(e)}", source=src, error=repr(e)[:300])
    dt = time.perf_counter() - t0
    if dt > 50 * expected_seconds(src) and kind != "recursion":
        t1 = time.perf_counter()
        try:
            run_pipeline(src, filename)
        except BaseException as e:  # noqa - only the time matters here
            if isinstance(e, core.CaseTimeout):
                raise
        dt2 = time.perf_counter() - t1
        if dt2 > 50 * expected_seconds(src):
            out.fail(f"{label}|blow-up:>50x-expected-time", source=src, seconds=[dt, dt2],
                     expected=expected_seconds(src))
        else:
            out.cls("slow-once")
    out.cls("A:" + kind)
    return kind


# ---------------------------------------------------------------------------------------------
# seeds and windows
# ---------------------------------------------------------------------------------------------

def window(src, k, target=15):
    """A run of consecutive top-level chunks of the program with about `target` lines."""
    lines = src.split("\n")
    if len(lines) <= target + 10:
        return src
    starts = [i for i, ln in enumerate(lines)
              if ln and not ln[0].isspace() and not ln.startswith("#")
              and not ln.startswith(("interrupt", "except", "else", "elif", "finally"))]
    if not starts:
        return src
    a = starts[k % len(starts)]
    b = a
    for s in starts:
        if s > a:
            b = s
            if s - a >= target:
                break
    else:
        b = len(lines)
    if b <= a:
        b = len(lines)
    return "\n".join(lines[a:b]) + "\n"


STAGE_B_BANNED = re.compile(
    r"import|open|exec|eval|compile|os\.|sys\.|subprocess|shutil|socket|__|input|exit|quit|"
    r"remove|unlink|rmdir|write|system|popen|kill|fork|thread|sleep|localPath|simulator|"
    r"record|while")


def mutant_of(case):
    progs = corpus.scenic_programs()
    p = progs[case["seed"] % len(progs)]
    base = window(p["src"], case.get("win", 0))
    return p, base, c10_mut.apply(base, case["muts"])


# ---------------------------------------------------------------------------------------------
# stage B: child process
# ---------------------------------------------------------------------------------------------

VENEER_DEFAULTS = {
    "activity": 0, "currentScenario": None, "scenarioStack": [], "scenarios": [],
    "evaluatingRequirement": False, "_globalParameters": {}, "lockedParameters": [],
    "lockedModel": None, "loadingModel": False, "currentSimulation": None,
    "currentBehavior": None, "simulatorFactory": None, "evaluatingGuard": False, "mode2D": False,
}


def _veneer_state():
    from scenic.syntax import veneer

    state = {"isActive": bool(veneer.isActive())}
    for k, dflt in VENEER_DEFAULTS.items():
        v = getattr(veneer, k, "<missing>")
        if isinstance(v, (set, frozenset, tuple)):
            v = sorted(map(repr, v))
        elif isinstance(v, (list, dict)):
            v = [repr(x) for x in v] if isinstance(v, list) else {repr(a): repr(b)
                                                                  for a, b in v.items()}
        elif not isinstance(v, (int, float, bool, str, type(None))):
            v = repr(v)[:80]
        state[k] = v
    return state


def _child_setup():
    try:
        scratch = f"/var/tmp/vf-c10-{os.getppid()}"
        os.makedirs(scratch, exist_ok=True)
        os.chdir(scratch)
        devnull = os.open(os.devnull, os.O_RDWR)
        for fd in (0, 1, 2):
            os.dup2(devnull, fd)
    except OSError:
        pass


_counter = [0]


def _compile_in_this_process(src, mode2D, seconds, bmode="string"):
    """bmode: 'string' = scenarioFromString(src); 'file' = scenarioFromFile of a real file holding
    src; 'import' = a correct main program that imports a Scenic module holding src (the
    current directory of the child is its scratch directory)."""
    import random

    import numpy
    import scenic

    random.seed(0)
    numpy.random.seed(0)
    status = "returned"
    _counter[0] += 1
    name = f"vfmod_{os.getpid()}_{_counter[0]}"
    path = os.path.join(os.getcwd(), name + ".scenic")
    try:
        if bmode != "string":
            with open(path, "wb") as f:
                f.write(src.encode("utf-8"))
        with core.time_limit(seconds):
            if bmode == "file":
                scenic.scenarioFromFile(path, mode2D=mode2D)
            elif bmode == "import":
                scenic.scenarioFromString(f"import {name}\nego = new Object\n", mode2D=mode2D)
            else:
                scenic.scenarioFromString(src, mode2D=mode2D)
    except core.CaseTimeout:
        status = "timeout"
    except BaseException as e:  # noqa: whatever user code or the compiler raised
        status = "raised:" + type(e).__name__
    finally:
        if bmode != "string":
            try:
                os.unlink(path)
            except OSError:
                pass
            sys.modules.pop(name, None)
    return {"status": status, "state": _veneer_state()}


def _read_exact(fd, n, deadline):
    data = b""
    while len(data) < n:
        left = deadline - time.time()
        if left <= 0:
            return None
        ready, _, _ = select.select([fd], [], [], left)
        if not ready:
            return None
        chunk = os.read(fd, n - len(data))
        if not chunk:
            return None
        data += chunk
    return data


class StageBServer:
    """A forked child that compiles one program after the other (a fork per program costs
    seconds of copy-on-write faults).  It is discarded as soon as a compilation times out or
    leaves the veneer in a non-default state, and every failure it reports is confirmed in a
    fresh child before it counts."""

    def __init__(self):
        self.pid = None

    def start(self):
        front_end()
        req_r, req_w = os.pipe()
        res_r, res_w = os.pipe()
        pid = os.fork()
        if pid == 0:
            code = 0
            try:
                os.close(req_w)
                os.close(res_r)
                _child_setup()
                while True:
                    head = _read_exact(req_r, 8, time.time() + 3600)
                    if head is None:
                        break
                    body = _read_exact(req_r, int(head), time.time() + 60)
                    if body is None:
                        break
                    req = json.loads(body.decode())
                    res = json.dumps(_compile_in_this_process(
                        req["src"], req["mode2D"], req["seconds"],
                        req.get("bmode", "string"))).encode()
                    os.write(res_w, b"%08d" % len(res) + res)
            except BaseException:  # noqa
                code = 3
            finally:
                os._exit(code)
        os.close(req_r)
        os.close(res_w)
        self.pid, self.req_w, self.res_r = pid, req_w, res_r

    def stop(self):
        if self.pid is None:
            return
        for fd in (self.req_w, self.res_r):
            try:
                os.close(fd)
            except OSError:
                pass
        try:
            os.kill(self.pid, signal.SIGKILL)
        except OSError:
            pass
        try:
            os.waitpid(self.pid, 0)
        except OSError:
            pass
        self.pid = None

    def run(self, src, mode2D, seconds=20, bmode="string"):
        if self.pid is None:
            self.start()
        body = json.dumps({"src": src, "mode2D": mode2D, "seconds": seconds,
                           "bmode": bmode}).encode()
        try:
            os.write(self.req_w, b"%08d" % len(body) + body)
            deadline = time.time() + seconds + 20
            head = _read_exact(self.res_r, 8, deadline)
            data = _read_exact(self.res_r, int(head), deadline) if head else None
        except (OSError, ValueError):
            data = None
        if data is None:
            self.stop()
            return "no-answer", None
        doc = json.loads(data.decode())
        clean = (doc["status"] != "timeout" and not doc["state"]["isActive"]
                 and all(doc["state"].get(k) == d for k, d in VENEER_DEFAULTS.items()))
        if not clean:
            self.stop()
        return doc["status"], doc["state"]


_server = StageBServer()


def run_stage_b(src, mode2D, seconds=20, fresh=False, bmode="string"):
    """(status, veneer state | None) of compiling src in a child process."""
    if not fresh:
        return _server.run(src, mode2D, seconds, bmode)
    one = StageBServer()
    try:
        return one.run(src, mode2D, seconds, bmode)
    finally:
        one.stop()


def _stage_b_failures(src, status, state, bmode="string"):
    fails = []
    if state is None or status == "timeout":
        return fails
    cell = "stageB" if bmode == "string" else f"stageB:{bmode}"
    if state["isActive"]:
        fails.append((f"{cell}|veneer-still-active-after:" + status.split(":")[0],
                      {"source": src, "status": status, "state": state, "entry": bmode}))
        return fails
    for k, dflt in VENEER_DEFAULTS.items():
        if state.get(k) != dflt:
            fails.append((f"{cell}|veneer-global-not-reset:{k}",
                          {"source": src, "status": status, "value": state.get(k),
                           "entry": bmode}))
    return fails


def judge_stage_b(src, mode2D, out, fresh=False, bmode="string"):
    status, state = run_stage_b(src, mode2D, fresh=fresh, bmode=bmode)
    out.cls("B:" + status.split(":")[0], "B-entry:" + bmode)
    if state is None or status == "timeout":
        out.cls("B:unjudged")
        return
    fails = _stage_b_failures(src, status, state, bmode)
    if fails and not fresh:
        # confirm in a process that has compiled nothing else
        status2, state2 = run_stage_b(src, mode2D, fresh=True, bmode=bmode)
        confirmed = {sig for sig, _ in _stage_b_failures(src, status2, state2, bmode)}
        if not confirmed:
            out.cls("B:not-reproduced-in-fresh-child")
        fails = [f for f in fails if f[0] in confirmed]
    out.failures.extend(fails)


# ---------------------------------------------------------------------------------------------
# judge
# ---------------------------------------------------------------------------------------------

def judge_mutant(case):
    out = core.Outcome()
    p, base, src = mutant_of(case)
    out.cls("seed:" + p["kind"].split(":")[0])
    for m in case["muts"]:
        out.cls("mut:" + m[0])
    try:
        src.encode("utf-8")
    except UnicodeEncodeError:
        out.cls("discard:not-utf8")
        return out
    changed = src != base
    tok_ok = python_tokenizer_accepts(src)
    out.nontrivial = changed and tok_ok
    out.cls("tokenizes" if tok_ok else "python-tokenizer-rejects")
    kind = judge_text(src, out, asfile=bool(case.get("asfile")))
    if case.get("asfile") and out.failures:
        # a failure that the same text shows under the name "<string>" is not about files
        plain = core.Outcome()
        judge_text(src, plain, asfile=False)
        plain_sigs = {sig for sig, _ in plain.failures}
        out.failures = [(sig.replace("stageA:file|", "stageA|", 1)
                         if sig.replace("stageA:file|", "stageA|", 1) in plain_sigs else sig, d)
                        for sig, d in out.failures]
    if case.get("stageB") and kind in ("ok", "syntax-error") and not out.failures \
            and not STAGE_B_BANNED.search(src) and len(src) < 3000:
        judge_stage_b(src, bool(case.get("mode2D")), out, bmode=case.get("bmode", "string"))
    for k in range(len(out.failures)):
        out.failures[k][1]["seed_program"] = p["id"]
    return out


def _dump_shape(node):
    return ast.dump(node, annotate_fields=True, include_attributes=False)


def precedence_cases():
    """(label, source, predicate on the Scenic AST statement, documented where)."""
    import scenic.syntax.ast as s

    def beyond(st_):
        sp = st_.value.specifiers[0]
        return (isinstance(sp, s.BeyondSpecifier) and isinstance(sp.offset, s.DistanceFromOp)
                and getattr(sp.offset.target, "id", None) == "B" and sp.base is None
                and getattr(sp.position, "id", None) == "A")

    def always_implies(st_):
        c = st_.cond
        return (isinstance(c, s.Always) and isinstance(c.value, s.ImpliesOp)
                and c.value.hypothesis.id == "X" and c.value.conclusion.id == "Y")

    def always_implies_next(st_):
        c = st_.cond
        return (isinstance(c, s.Always) and isinstance(c.value, s.ImpliesOp)
                and isinstance(c.value.conclusion, s.Next))

    def weak_until(st_):
        c = st_.cond
        return (isinstance(c, ast.BoolOp) and isinstance(c.op, ast.Or)
                and isinstance(c.values[0], s.UntilOp) and len(c.values) == 2)

    def implies(st_):
        c = st_.cond
        return isinstance(c, s.ImpliesOp) and c.hypothesis.id == "X" and c.conclusion.id == "Y"

    def vector(st_):
        v = st_.value
        return (isinstance(v, s.VectorOp) and isinstance(v.left, ast.UnaryOp)
                and isinstance(v.right, ast.Constant) and v.right.value == 3)

    def soft_require(st_):
        return (isinstance(st_, s.Require) and st_.prob == 0.5
                and isinstance(st_.cond, ast.Compare) and isinstance(st_.cond.left, ast.BinOp))

    def deg(st_):
        sp = st_.value.specifiers[0]
        return isinstance(sp.heading, s.DegOp) and isinstance(sp.heading.operand, ast.Call)

    return [
        ("beyond-by-distance-from", "new Object beyond A by distance from B\n", beyond,
         "docs/reference/general.rst: parsed as `beyond A by (distance from B)`"),
        ("always-implies", "require always X implies Y\n", always_implies,
         "docs/reference/operators.rst: at every time step when X holds, Y must also hold"),
        ("always-implies-next", "require always (X implies next X)\n", always_implies_next,
         "docs/reference/operators.rst (next)"),
        ("weak-until", "require (X until Y) or (always X and not Y)\n", weak_until,
         "docs/reference/operators.rst (until)"),
        ("implies", "require X implies Y\n", implies, "docs/reference/operators.rst (implies)"),
        ("vector-unary-minus", "x = -2 @ 3\n", vector,
         "docs/reference/data.rst: -2 @ 3 means 2 meters left and 3 ahead"),
        ("soft-require-parenthesised", "require[0.5] (x + y) < 0\n", soft_require,
         "docs/reference/statements.rst: require[*number*] *boolean*"),
        ("deg-after-call", "new Object facing Range(-30, 30) deg\n", deg,
         "docs/tutorials/fundamentals.rst"),
    ]


def judge_doc(case):
    out = core.Outcome()
    out.nontrivial = True
    kind = case["kind"]
    if kind == "doc-form":
        out.cls("C:form:" + case["doc"])
        if case.get("source") is None:
            out.cls("C:unjudged:" + str(case.get("skip")))
            out.nontrivial = False
            return out
        before = len(out.failures)
        k = judge_text(case["source"], out, label="stageC-crash")
        if k == "syntax-error" and len(out.failures) == before:
            fe = front_end()
            try:
                run_pipeline(case["source"])
            except fe["err"] as e:
                head = re.sub(r"\s+", " ", case["heading"])[:60]
                out.fail(f"stageC:{case['doc']}:{head}|documented-form-rejected",
                         source=case["source"], error=repr(e)[:300],
                         line=getattr(e, "lineno", None), doc_line=case["line"])
        return out
    if kind == "doc-precedence":
        out.cls("C:precedence")
        fe = front_end()
        for label, src, pred, where in precedence_cases():
            if label != case["label"]:
                continue
            try:
                tree = fe["parse"](src, "exec", filename="<string>")
                okay = bool(pred(tree.body[0]))
                shape = _dump_shape(tree.body[0])[:400]
            except fe["err"] as e:
                okay, shape = False, repr(e)
            except (AttributeError, IndexError, TypeError) as e:
                okay, shape = False, "shape check failed: " + repr(e)
            if not okay:
                out.fail(f"stageC:precedence:{label}|not-the-documented-parse", source=src,
                         documented=where, parsed=shape)
        return out
    raise core.HarnessError("unknown doc case " + kind)


def judge_plain_text(case):
    """A literal input text (found by the coverage-guided campaign)."""
    out = core.Outcome()
    src = case["src"]
    out.cls("text")
    out.nontrivial = python_tokenizer_accepts(src)
    judge_text(src, out)
    return out


def minimise_text(src, sig, budget_s=30):
    """Greedy line- then character-level reduction keeping the failure signature."""
    t_end = time.time() + budget_s

    def fails(t):
        o = core.Outcome()
        try:
            judge_text(t, o)
        except core.CaseTimeout:
            raise
        return any(s_ == sig for s_, _ in o.failures)

    for unit in ("line", "char"):
        changed = True
        while changed and time.time() < t_end:
            changed = False
            parts = src.split("\n") if unit == "line" else list(src)
            if unit == "char" and len(parts) > 400:
                break
            k = 0
            while k < len(parts) and time.time() < t_end:
                cand = parts[:k] + parts[k + 1:]
                text = ("\n" if unit == "line" else "").join(cand)
                if text != src and fails(text):
                    parts, src, changed = cand, text, True
                else:
                    k += 1
    return src


def judge(case):
    kind = case.get("kind", "mutant")
    if kind == "mutant":
        return judge_mutant(case)
    if kind == "text":
        return judge_plain_text(case)
    return judge_doc(case)


def replay(case):
    c10_mut.selfcheck()
    return judge(case)


# ---------------------------------------------------------------------------------------------
# strategy / plan
# ---------------------------------------------------------------------------------------------

def mutation():
    # statement-inserting kinds get three times the weight of the others
    kinds = c10_mut.KINDS + ["move", "moveown", "stmt"] * 2
    return st.tuples(st.sampled_from(kinds), st.integers(0, 4000), st.integers(0, 4000),
                     st.integers(0, 8000)).map(list)


def cases():
    n = len(corpus.scenic_programs())
    return st.fixed_dictionaries({
        "kind": st.just("mutant"),
        "seed": st.integers(0, n - 1),
        "win": st.integers(0, 200),
        "muts": st.lists(mutation(), min_size=1, max_size=4),
        "stageB": st.sampled_from([False] * 9 + [True]),
        "bmode": st.sampled_from(["string", "file", "import", "import"]),
        "asfile": st.booleans(),
        "mode2D": st.booleans(),
    })


FIXED_TEXTS = [
    "x = (\n", "x = [1,\n", "x = 'abc\n", 'x = """abc\n', "if x:\n        y = 1\n    z = 2\n",
    "if x:\n\ty = 1\n        z = 2\n", "x = 1 \\", "\\", "", "# only a comment", "\ufeffx = 1\n",
    "  x = 1\n", "x = 1\n  y = 2\n", "x = $\n", "x = 1 +\n", "def f(:\n", "ego = new Object at\n",
    "new Object at (1, 2\n", "require\n", "behavior B():\nwait\n", "x = f'{'\n", "x = )\n",
    "class C:\n", "try:\n    pass\n", "x = 1;;\n", "\f\n", "x = 1\r\ny = (\r\n",
]


def doc_cases():
    out = []
    for f in c10_docs.forms():
        out.append(dict(f, kind="doc-form"))
    for label, src, _, where in precedence_cases():
        out.append({"kind": "doc-precedence", "label": label})
    # a fixed handful of elementary malformed inputs (every one must be a located syntax error)
    for text in FIXED_TEXTS:
        out.append({"kind": "text", "src": text})
    # complete examples (code blocks) of the reference pages: they must compile as they stand
    for p in corpus.scenic_programs():
        if p["kind"].startswith("doc-block") and "/reference/" in p["id"] \
                and "..." not in p["src"] and "{" not in p["src"].replace("{}", ""):
            out.append({"kind": "doc-form", "doc": "example", "line": p["id"],
                        "heading": "code block " + p["id"], "mode": 0, "source": p["src"]})
    return out


def selfcheck():
    c10_mut.selfcheck()
    # the oracle's own notion of "lines" and of an acceptable outcome, on hand-made inputs
    if count_lines("a\nb") != 2 or count_lines("a\n") != 2 or count_lines("") != 1:
        raise core.HarnessError("c10 count_lines")
    if nesting_estimate("((((x))))") < 4:
        raise core.HarnessError("c10 nesting")


def plan(tier, seed, jobs):
    jobs = max(1, jobs)
    total = 6000 if tier == "quick" else 200000
    try:  # development knob: VERIF_C10_SCALE=0.1 runs a tenth of the tier
        total = max(200, int(total * float(os.environ.get("VERIF_C10_SCALE", "1"))))
    except ValueError:
        pass
    nsh = jobs if tier == "quick" else jobs * 4
    shards = [{"kind": "mutants", "seed": seed * 1000 + k, "n": max(50, total // nsh)}
              for k in range(nsh)]
    shards.append({"kind": "docs"})
    if tier == "thorough":
        shards.insert(0, {"kind": "atheris", "seconds": 600, "seed": seed})
    return shards


def run_atheris(shard, col):
    import shutil
    import subprocess

    deps = os.path.join(core.VERIF, ".deps")
    if not os.path.isdir(os.path.join(deps, "atheris")):
        col.extra["atheris_skipped_not_installed"] = 1
        return
    outdir = f"/var/tmp/vf-c10-atheris-{os.getpid()}"
    shutil.rmtree(outdir, ignore_errors=True)
    env = dict(os.environ, PYTHONPATH=core.VERIF + os.pathsep + os.environ.get("PYTHONPATH", ""))
    try:
        try:
            subprocess.run([sys.executable, "-m", "vf.c10_atheris", outdir,
                            str(shard["seconds"]), str(shard["seed"])],
                           env=env, cwd=core.VERIF, timeout=shard["seconds"] + 600,
                           stdout=subprocess.DEVNULL, stderr=subprocess.DEVNULL)
        except subprocess.TimeoutExpired:
            col.extra["atheris_timeout"] = 1
        try:
            with open(os.path.join(outdir, "stats.json")) as f:
                col.extra["atheris_execs"] = json.load(f).get("execs", 0)
        except (OSError, ValueError):
            col.extra["atheris_execs"] = 0
        if os.path.isdir(outdir):
            for fn in sorted(os.listdir(outdir)):
                if not fn.startswith("crash-"):
                    continue
                with open(os.path.join(outdir, fn)) as f:
                    doc = json.load(f)
                try:
                    with core.time_limit(120):
                        src = minimise_text(doc["src"], doc["signature"])
                        case = {"kind": "text", "src": src}
                        out = judge_plain_text(case)
                except core.CaseTimeout:
                    case = {"kind": "text", "src": doc["src"]}
                    out = core.Outcome(inconclusive=True, classes=["timeout"])
                col.add(case, out)
    finally:
        shutil.rmtree(outdir, ignore_errors=True)


def run_shard(shard, tier):
    selfcheck()
    col = core.Collector(PROP, shard["id"])
    if shard["kind"] == "atheris":
        run_atheris(shard, col)
    elif shard["kind"] == "docs":
        for case in doc_cases():
            try:
                with core.time_limit(60):
                    out = judge(case)
            except core.CaseTimeout:
                out = core.Outcome(inconclusive=True, classes=["timeout"])
            col.add(case, out)
        col.extra["doc_forms"] = col.evaluations
    else:
        try:
            core.hyp_search(cases(), judge_mutant, shard["n"], shard["seed"], col,
                            known_sigs=shard.get("known_sigs", ()), case_timeout=90,
                            shrink_s=60 if tier == "quick" else 200)
        finally:
            import shutil

            _server.stop()
            shutil.rmtree(f"/var/tmp/vf-c10-{os.getpid()}", ignore_errors=True)
    return col.result()
