"""C11 — temporal requirements accept exactly the traces satisfying the formula.

Exhaustive enumeration of LTL formulas over atoms a,b (depth bound) x parenthesisation variant x
placement x truth-value traces (length bound).  The atoms are look-ups `T("a")` into a
harness-owned table indexed by the simulation step (vf.tablesim), so one compiled scenario is
re-simulated under every trace.  Oracle: own evaluator of finite-trace LTL (strong next, strong
until) on the slice of the trace from the step the requirement takes effect to the step its
scenario ends.

Window conventions (read from dynamic_scenarios.rst steps 1a/1e/10, confirmed on the tree by
logging the table cells read):
* top level, `maxSteps=L`: the initial scene is checked with the step-0 valuation at generation
  time, then the monitor is updated in steps 0..L (L+1 positions; the terminating step still
  runs step 1a) and the final verdict is taken when the simulation stops.
* `setup` block of a scenario started by `do` in step k: first update in step k itself; last
  update in the step e in which the scenario stops (its compose block finishes, its parent's
  `terminate when` fires after the sub-scenario ran in step e, or the simulation ends).
  (`do Sub() until c` / `for n steps` stops Sub *before* it runs in the last step: not generated,
  the docs do not say whether that step belongs to the trace.)
* `require` executed in a compose block in step k: the statement takes effect in step k.
* `terminate when` is never written inside a scenario that is set up at run time: it is
  mis-filed as a requirement there (findings/C11-terminate-when-in-subscenario.py).
"""

from __future__ import annotations

import itertools
import random as _random

from vf import core
from vf import tablesim as ts

PROP = "C11"
NEEDS_PARSER = True
FLOOR = 0.40
RULE = ("Every formula over atoms a,b built from always/eventually/next/until/implies/and/or/not up "
        "to depth 2 (2810 formulas; seeded samples of depth 3 over a,b,c), printed with minimal, "
        "full and redundant parentheses, placed at top level / in the setup block of a "
        "sub-scenario started at step k / as a `require` executed in a compose block at step k, "
        "simulated under every truth-value trace of length 1..4 (1..5 thorough) swapped in through "
        "a step-indexed truth table; the scenario ends by maxSteps, `terminate when`, its compose "
        "block finishing, or its parent terminating.  One case = one (formula, variant, placement, "
        "k, end mode) with its set of traces.  Non-trivial = the formula contains a temporal "
        "operator and for some trace of the case flipping the atoms of the first or of the last "
        "step changes the oracle verdict.  A separate slice lets the atoms return non-Boolean "
        "truthy/falsy values (1, 2, 'x', 0, None, '').  Distinct = SHA-1 of the case.")
ASSUMPTIONS = [
    "the current step is Simulation.currentTime of the running simulation (vf.tablesim.T reads it "
    "from scenic.syntax.veneer.currentSimulation, as `simulation().currentTime` does)",
    "finite-trace semantics: strong next, strong until, eventually = true U x, always = not "
    "eventually not (vf.props.c11.vec, self-checked on hand-computed pairs and against the "
    "definitional evaluator `holds`)",
    "witness search for early rejection extends the observed prefix by at most 4 steps: a found "
    "witness is a sound counter-example, absence beyond the bound is not judged",
    "the defect model `b4_run(..., defect=True)` re-implements rv_ltl 0.1.0a1's four-valued monitor "
    "including its Until index range; it is used only to *attribute* a disagreement, never to "
    "excuse one that it does not predict exactly; with the index range corrected the model still "
    "returns FALSE at the first currently-truthy position of an `until` (second rv_ltl deviation)",
]

ATOMS = ("a", "b", "c")
PREFIX = ("always", "eventually", "next")
UNARY = ("not",) + PREFIX
BINARY = ("and", "or", "implies", "until")
TEMPORAL = PREFIX + ("until",)


# ----------------------------------------------------------------------------------------------
# Formulas
# ----------------------------------------------------------------------------------------------

def kind(f):
    return f[0]


def is_atom(f):
    return len(f) == 1


def formulas_upto(depth, natoms=2):
    """All formulas of depth <= `depth`, deterministic order."""
    level = [[x] for x in ATOMS[:natoms]]
    allf = list(level)
    for _ in range(depth):
        new = [[x] for x in ATOMS[:natoms]]
        for op in UNARY:
            new += [[op, x] for x in allf]
        for op in BINARY:
            new += [[op, x, y] for x in allf for y in allf]
        allf = new
    return allf


def depth_of(f):
    return 0 if is_atom(f) else 1 + max(depth_of(x) for x in f[1:])


def subformulas(f):
    yield f
    for x in f[1:]:
        if isinstance(x, list):
            yield from subformulas(x)


def has_temporal(f):
    return any(kind(g) in TEMPORAL for g in subformulas(f))


def atoms_of(f):
    return sorted({kind(g) for g in subformulas(f) if is_atom(g)})


def until_under_temporal(f, under=False):
    """An `until` with a non-constant left operand evaluated at an offset: nested below a
    temporal operator."""
    k = kind(f)
    if is_atom(f):
        return False
    if k == "until" and under:
        return True
    u = under or k in TEMPORAL
    return any(until_under_temporal(x, u) for x in f[1:])


def has_until(f):
    return any(kind(g) == "until" for g in subformulas(f))


def until_with_temporal_rhs(f):
    """An `until` whose right operand contains a temporal operator (its value at an earlier
    position can still change from presumably-false to true)."""
    return any(kind(g) == "until" and has_temporal(g[2]) for g in subformulas(f))


def temporal_nesting(f):
    if is_atom(f):
        return 0
    m = max(temporal_nesting(x) for x in f[1:])
    return m + (1 if kind(f) in TEMPORAL else 0)


def fclass(f):
    if not has_temporal(f):
        return "non-temporal"
    if until_under_temporal(f):
        return "until-under-temporal"
    return "nested-temporal" if temporal_nesting(f) >= 2 else "flat-temporal"


def random_formula(rng, depth, natoms):
    if depth == 0 or rng.random() < 0.12:
        return [rng.choice(ATOMS[:natoms])]
    op = rng.choice(UNARY + BINARY + TEMPORAL)
    if op in UNARY:
        return [op, random_formula(rng, depth - 1, natoms)]
    return [op, random_formula(rng, depth - 1, natoms), random_formula(rng, depth - 1, natoms)]


# ----------------------------------------------------------------------------------------------
# Printing (written from the grammar rules scenic_until .. scenic_temporal_group)
# ----------------------------------------------------------------------------------------------
# until        :  above 'until' above                       (non-associative, lowest)
# above        :  prefix | implication
# prefix       :  ('next'|'eventually'|'always') above      (extends as far right as possible)
# implication  :  disj 'implies' (prefix | disj)            (non-associative)
# disj         :  conj ('or' (prefix | conj))+
# conj         :  inv ('and' (prefix | inv))+
# inv          :  'not' (prefix | inv) | '(' until ')' | atom
# A bare prefix operator swallows everything up to the next 'until' / ')' / end of statement,
# so it may be printed without parentheses only in *tail* position.

def atom_text(f):
    return f'T("{kind(f)}")'


def _paren(f):
    return "(" + p_min(f) + ")"


def p_min(f):
    if kind(f) == "until":
        return _above(f[1], True) + " until " + _above(f[2], True)
    return _above(f, True)


def _above(f, tail):
    k = kind(f)
    if k in PREFIX:
        return f"{k} " + _above(f[1], True) if tail else _paren(f)
    if k == "until":
        return _paren(f)
    return _impl(f, tail)


def _impl(f, tail):
    if kind(f) != "implies":
        return _disj(f, tail)
    l, r = f[1], f[2]
    lhs = _paren(l) if kind(l) in PREFIX + ("until", "implies") else _disj(l, False)
    if kind(r) in PREFIX:
        rhs = _above(r, tail)
    elif kind(r) in ("until", "implies"):
        rhs = _paren(r)
    else:
        rhs = _disj(r, tail)
    return lhs + " implies " + rhs


def _nary(f, tail, op, lower):
    if kind(f) != op:
        return lower(f, tail)
    l, r = f[1], f[2]
    lt = _nary(l, False, op, lower) if kind(l) == op else lower(l, False)
    if kind(r) in PREFIX:
        rt = _above(r, tail)
    elif kind(r) == op:
        rt = _paren(r)
    else:
        rt = lower(r, tail)
    return f"{lt} {op} {rt}"


def _disj(f, tail):
    return _nary(f, tail, "or", _conj)


def _conj(f, tail):
    return _nary(f, tail, "and", _inv)


def _inv(f, tail):
    if is_atom(f):
        return atom_text(f)
    if kind(f) == "not":
        x = f[1]
        if kind(x) in PREFIX:
            return "not " + _above(x, tail)
        if kind(x) == "not" or is_atom(x):
            return "not " + _inv(x, tail)
        return "not " + _paren(x)
    return _paren(f)


def p_full(f):
    if is_atom(f):
        return atom_text(f)
    if len(f) == 2:
        return f"({kind(f)} {p_full(f[1])})"
    return f"({p_full(f[1])} {kind(f)} {p_full(f[2])})"


def p_red(f):
    if is_atom(f):
        return f"({atom_text(f)})"
    if len(f) == 2:
        return f"(({kind(f)} {p_red(f[1])}))"
    return f"(({p_red(f[1])} {kind(f)} {p_red(f[2])}))"


PRINTERS = {"min": p_min, "full": p_full, "red": p_red}


def needs_python_unparsable_group_before_implies(text):
    """Defect model of the parser finding: `scenic_temporal_group` is not tried when the token
    after ')' is `implies`, so a parenthesised group directly before `implies` is read as an
    ordinary Python expression, which fails iff it contains a temporal operator or `implies`."""
    import re

    for m in re.finditer(r"\) implies\b", text):
        close = m.start()
        depth = 0
        for i in range(close, -1, -1):
            if text[i] == ")":
                depth += 1
            elif text[i] == "(":
                depth -= 1
                if depth == 0:
                    break
        inner = text[i + 1:close]
        if re.search(r"\b(always|eventually|next|until|implies)\b", inner):
            return True
    return False


# ----------------------------------------------------------------------------------------------
# Oracle: finite-trace LTL.  A trace is a list of ints, bit i = truth value of ATOMS[i].
# ----------------------------------------------------------------------------------------------

def holds(f, tr, i=0):
    """Definitional evaluator (quantifiers written out)."""
    k = kind(f)
    n = len(tr)
    if is_atom(f):
        return bool(tr[i] >> ATOMS.index(k) & 1)
    if k == "not":
        return not holds(f[1], tr, i)
    if k == "and":
        return holds(f[1], tr, i) and holds(f[2], tr, i)
    if k == "or":
        return holds(f[1], tr, i) or holds(f[2], tr, i)
    if k == "implies":
        return (not holds(f[1], tr, i)) or holds(f[2], tr, i)
    if k == "next":
        return i + 1 < n and holds(f[1], tr, i + 1)
    if k == "eventually":
        return any(holds(f[1], tr, j) for j in range(i, n))
    if k == "always":
        return all(holds(f[1], tr, j) for j in range(i, n))
    if k == "until":
        return any(holds(f[2], tr, j) and all(holds(f[1], tr, m) for m in range(i, j))
                   for j in range(i, n))
    raise ValueError(k)


def vec(f, tr):
    """Truth value at every position, by backward recurrences."""
    k = kind(f)
    n = len(tr)
    if is_atom(f):
        sh = ATOMS.index(k)
        return [bool(x >> sh & 1) for x in tr]
    if k == "not":
        return [not x for x in vec(f[1], tr)]
    if k == "next":
        return vec(f[1], tr)[1:] + [False]
    if k in ("eventually", "always"):
        v = vec(f[1], tr)
        out = [False] * n
        acc = (k == "always")
        for i in range(n - 1, -1, -1):
            acc = (v[i] and acc) if k == "always" else (v[i] or acc)
            out[i] = acc
        return out
    l, r = vec(f[1], tr), vec(f[2], tr)
    if k == "and":
        return [x and y for x, y in zip(l, r)]
    if k == "or":
        return [x or y for x, y in zip(l, r)]
    if k == "implies":
        return [(not x) or y for x, y in zip(l, r)]
    if k == "until":
        out = [False] * n
        acc = False
        for i in range(n - 1, -1, -1):
            acc = r[i] or (l[i] and acc)
            out[i] = acc
        return out
    raise ValueError(k)


def sat(f, tr):
    return vec(f, tr)[0]


def witness(f, prefix, natoms, extra=4, cache=None):
    """Some extension of `prefix` by 0..extra steps satisfying f, or None."""
    key = tuple(prefix)
    if cache is not None and key in cache:
        return cache[key]
    res = None
    for m in range(extra + 1):
        for ext in itertools.product(range(1 << natoms), repeat=m):
            t = list(prefix) + list(ext)
            if sat(f, t):
                res = t
                break
        if res is not None:
            break
    if cache is not None:
        cache[key] = res
    return res


# -- defect model: the four-valued monitor of rv_ltl, with its Until index range -----------------
B_TRUE, B_PT, B_PF, B_FALSE = 4, 3, 2, 1


def b4(f, tr, i, last, defect):
    k = kind(f)
    if is_atom(f):
        return B_TRUE if tr[i] >> ATOMS.index(k) & 1 else B_FALSE
    if k == "not":
        return 5 - b4(f[1], tr, i, last, defect)
    if k == "and":
        return min(b4(f[1], tr, i, last, defect), b4(f[2], tr, i, last, defect))
    if k == "or":
        return max(b4(f[1], tr, i, last, defect), b4(f[2], tr, i, last, defect))
    if k == "implies":
        return max(5 - b4(f[1], tr, i, last, defect), b4(f[2], tr, i, last, defect))
    if k == "next":
        return B_PF if i + 1 > last else b4(f[1], tr, i + 1, last, defect)
    if k == "eventually":
        return _b4_until(None, f[1], tr, i, last, defect)
    if k == "always":
        return 5 - _b4_until(None, ["not", f[1]], tr, i, last, defect)
    if k == "until":
        return _b4_until(f[1], f[2], tr, i, last, defect)
    raise ValueError(k)


def _b4_until(l, r, tr, i, last, defect):
    for k in range(i, last + 1):
        v = b4(r, tr, k, last, defect)
        if v < B_PT:
            continue
        res = v
        rng = range(i, min(i + k, last)) if defect else range(i, k)
        for j in rng:
            res = min(res, B_TRUE if l is None else b4(l, tr, j, last, defect))
        return res
    return B_PF


def b4_run(f, tr, defect):
    """(accepted, index of the step at which the run is rejected or None)."""
    v = B_TRUE
    for last in range(len(tr)):
        v = b4(f, tr, 0, last, defect)
        if v == B_FALSE:
            return (False, last)
    if v < B_PT:
        return (False, len(tr) - 1)
    return (True, None)


def bitwise_verdict(f, values):
    """Defect model of propositions.And/Or.evaluate (reduce with the *bitwise* operators & and |,
    starting from True / False) on the raw atom values of one step: 'accept' / 'reject' /
    'TypeError'."""
    import operator

    def ev(g):
        k = kind(g)
        if is_atom(g):
            return values[k]
        if k == "not":
            return not ev(g[1])
        if k == "and":
            return operator.and_(operator.and_(True, ev(g[1])), ev(g[2]))
        if k == "or":
            return operator.or_(operator.or_(False, ev(g[1])), ev(g[2]))
        if k == "implies":
            return (not ev(g[1])) or ev(g[2])
        raise ValueError(k)

    try:
        return "accept" if ev(f) else "reject"
    except TypeError:
        return "TypeError"



_HAND = [
    # formula, trace (bit0 = a, bit1 = b), expected
    (["a"], [1], True), (["a"], [0], False), (["a"], [0, 1], False), (["b"], [2, 0], True),
    (["next", ["a"]], [1], False), (["next", ["a"]], [0, 1], True), (["next", ["a"]], [1, 0], False),
    (["not", ["next", ["a"]]], [1], True), (["not", ["next", ["a"]]], [0, 1], False),
    (["always", ["a"]], [1, 1, 1], True), (["always", ["a"]], [1, 0, 1], False),
    (["always", ["a"]], [1], True), (["eventually", ["a"]], [0, 0, 1], True),
    (["eventually", ["a"]], [0, 0, 0], False),
    (["until", ["a"], ["b"]], [1, 1, 2], True), (["until", ["a"], ["b"]], [1, 0, 2], False),
    (["until", ["a"], ["b"]], [1, 1, 1], False), (["until", ["a"], ["b"]], [2], True),
    (["until", ["a"], ["b"]], [0, 2], False), (["until", ["a"], ["b"]], [3, 0], True),
    (["next", ["until", ["a"], ["b"]]], [0, 1, 2], True),
    (["next", ["until", ["a"], ["b"]]], [0, 1, 2, 0], True),
    (["next", ["until", ["a"], ["b"]]], [0, 1, 1], False),
    (["next", ["until", ["a"], ["b"]]], [0], False),
    (["next", ["until", ["a"], ["b"]]], [2, 0], False),
    (["next", ["until", ["a"], ["b"]]], [0, 2], True),
    (["always", ["implies", ["a"], ["next", ["b"]]]], [1, 2], True),
    (["always", ["implies", ["a"], ["next", ["b"]]]], [1, 1], False),
    (["always", ["implies", ["a"], ["next", ["b"]]]], [0, 0], True),
    (["always", ["implies", ["a"], ["next", ["b"]]]], [1, 2, 1], False),
    (["always", ["next", ["a"]]], [1, 1], False),
    (["eventually", ["next", ["a"]]], [0, 1], True), (["eventually", ["next", ["a"]]], [1, 0], False),
    (["eventually", ["next", ["a"]]], [1], False),
    (["always", ["eventually", ["a"]]], [0, 1], True), (["always", ["eventually", ["a"]]], [1, 0], False),
    (["eventually", ["always", ["a"]]], [0, 1], True), (["eventually", ["always", ["a"]]], [1, 0], False),
    (["implies", ["always", ["a"]], ["b"]], [1, 1], False),
    (["implies", ["always", ["a"]], ["b"]], [3, 1], True),
    (["implies", ["always", ["a"]], ["b"]], [1, 0], True),
    (["until", ["a"], ["next", ["b"]]], [1, 1, 2], True),
    (["until", ["a"], ["next", ["b"]]], [1, 0, 2], True),
    (["until", ["a"], ["next", ["b"]]], [0, 1, 2], False),
    (["not", ["until", ["a"], ["b"]]], [1, 1, 1], True), (["not", ["until", ["a"], ["b"]]], [1, 2], False),
    (["always", ["until", ["a"], ["b"]]], [2, 2], True), (["always", ["until", ["a"], ["b"]]], [1, 2], True),
    (["always", ["until", ["a"], ["b"]]], [2, 1], False),
    (["always", ["until", ["a"], ["b"]]], [1, 2, 0], False),
    (["eventually", ["until", ["a"], ["b"]]], [1, 1], False),
    (["eventually", ["until", ["a"], ["b"]]], [0, 2], True),
    (["and", ["a"], ["next", ["b"]]], [1, 2], True), (["and", ["a"], ["next", ["b"]]], [1, 1], False),
    (["or", ["a"], ["always", ["b"]]], [0, 2], False), (["or", ["a"], ["always", ["b"]]], [2, 2], True),
    (["or", ["a"], ["always", ["b"]]], [1, 0], True),
    (["next", ["next", ["a"]]], [0, 0, 1], True), (["next", ["next", ["a"]]], [0, 1], False),
]

_PRINT_HAND = [
    (["and", ["always", ["a"]], ["b"]], '(always T("a")) and T("b")'),
    (["always", ["and", ["a"], ["b"]]], 'always T("a") and T("b")'),
    (["until", ["always", ["a"]], ["b"]], 'always T("a") until T("b")'),
    (["always", ["until", ["a"], ["b"]]], 'always (T("a") until T("b"))'),
    (["or", ["a"], ["always", ["b"]]], 'T("a") or always T("b")'),
    (["or", ["or", ["a"], ["always", ["b"]]], ["a"]], 'T("a") or (always T("b")) or T("a")'),
    (["implies", ["a"], ["always", ["b"]]], 'T("a") implies always T("b")'),
    (["implies", ["always", ["a"]], ["b"]], '(always T("a")) implies T("b")'),
    (["not", ["always", ["a"]]], 'not always T("a")'),
    (["and", ["not", ["always", ["a"]]], ["b"]], 'not (always T("a")) and T("b")'),
    (["until", ["or", ["a"], ["next", ["b"]]], ["a"]], 'T("a") or next T("b") until T("a")'),
    (["not", ["and", ["a"], ["b"]]], 'not (T("a") and T("b"))'),
    (["implies", ["or", ["a"], ["b"]], ["a"]], 'T("a") or T("b") implies T("a")'),
    (["or", ["implies", ["a"], ["b"]], ["a"]], '(T("a") implies T("b")) or T("a")'),
    (["and", ["a"], ["or", ["a"], ["b"]]], 'T("a") and (T("a") or T("b"))'),
    (["or", ["a"], ["and", ["a"], ["b"]]], 'T("a") or T("a") and T("b")'),
]

_selfchecked = False


def selfcheck():
    global _selfchecked
    if _selfchecked:
        return
    for f, tr, exp in _HAND:
        if holds(f, tr) != exp or sat(f, tr) != exp:
            raise core.HarnessError(f"LTL oracle self-check failed on {f} {tr}: expected {exp}")
    # the two evaluators agree, and the four-valued model without its defect agrees with them
    rng = _random.Random(11)
    fs = formulas_upto(1) + [random_formula(rng, 3, 2) for _ in range(150)]
    for f in fs:
        for n in (1, 2, 3, 4):
            for _ in range(6):
                tr = [rng.randrange(4) for _ in range(n)]
                a, b = holds(f, tr), sat(f, tr)
                # (rv_ltl's Until can say FALSE too early even with the right index range:
                # the model is only required to agree on formulas without `until`)
                c = a if has_until(f) else b4_run(f, tr, False)[0]
                if not (a == b == c):
                    raise core.HarnessError(f"evaluators disagree on {f} {tr}: {a} {b} {c}")
    if b4_run(["next", ["until", ["a"], ["b"]]], [0, 1, 2, 0], True) != (False, 3):
        raise core.HarnessError("defect model does not reproduce the hand-computed rv_ltl case")
    if b4_run(["next", ["until", ["a"], ["b"]]], [0, 1, 2, 0], False) != (True, None):
        raise core.HarnessError("defect-free model wrong on the hand-computed case")
    prem = ["until", ["a"], ["or", ["a"], ["eventually", ["b"]]]]
    if b4_run(prem, [0, 1, 2], True) != (False, 1) or b4_run(prem, [0, 1, 2], False) != (False, 1) \
            or not sat(prem, [0, 1, 2]):
        raise core.HarnessError("model does not reproduce the hand-computed premature FALSE")
    for f, text in _PRINT_HAND:
        if p_min(f) != text:
            raise core.HarnessError(f"printer self-check: {f} -> {p_min(f)!r}, expected {text!r}")
    if len(formulas_upto(2)) != 2810 or len(formulas_upto(1)) != 26:
        raise core.HarnessError("formula enumeration has the wrong size")
    _selfchecked = True


# ----------------------------------------------------------------------------------------------
# Programs
# ----------------------------------------------------------------------------------------------

HEAD = "from vf.tablesim import T, V, LOG\n"

PROGRAMS = {
    "top": HEAD + '''ego = new Object
require {F}
terminate when T("stop")
''',
    "setup": HEAD + '''scenario Sub():
    setup:
        require {F}
    compose:
        wait until T("stop")
scenario Main():
    setup:
        ego = new Object
        terminate when T("mainstop")
    compose:
        wait until T("go")
        do Sub()
        while True:
            wait
''',
    "dyn-sub": HEAD + '''scenario Sub():
    compose:
        wait until T("go")
        require {F}
        wait until T("stop")
scenario Main():
    setup:
        ego = new Object
        terminate when T("mainstop")
    compose:
        do Sub()
        while True:
            wait
''',
    "dyn-top": HEAD + '''scenario Main():
    setup:
        ego = new Object
        terminate when T("stop")
    compose:
        wait until T("go")
        require {F}
        while True:
            wait
''',
}
END_MODES = {
    "top": ("stop", "maxsteps"),
    "dyn-top": ("stop", "maxsteps"),
    "setup": ("stop", "mainstop", "maxsteps"),
    "dyn-sub": ("stop", "mainstop", "maxsteps"),
}


def program(place, f, variant, ego=True, vals=None):
    """`ego=False` leaves the scenario without any object: creating the dynamic proxy of an object
    is 85 % of the cost of a short simulation and has nothing to do with the requirement.
    `vals` (non-Boolean slice): the atoms return raw table cells (`V`) instead of Booleans."""
    text = PRINTERS[variant](f)
    if vals:
        text = text.replace('T("', 'V("')
    src = PROGRAMS[place].replace("{F}", text)
    if not ego:
        assert src.count("ego = new Object\n") == 1
        src = src.replace("        ego = new Object\n", "").replace("ego = new Object\n", "")
    return src


def cell_value(vals, atom, bit):
    """Cell of an atom: 0/1, or in the non-Boolean slice the atom's truthy / falsy value."""
    if not vals:
        return bit
    return vals[atom][0] if bit else vals[atom][1]


def build_table(tr, k, end, natoms, vals=None):
    """Table for a trace occupying steps k..e; returns (table, maxSteps, e)."""
    n = len(tr)
    e = k + n - 1
    width = e + 5
    full = (1 << natoms) - 1
    cells = [tr[0] ^ full] * k + list(tr) + [tr[-1] ^ full] * (width - e - 1)
    table = {ATOMS[i]: [cell_value(vals, ATOMS[i], c >> i & 1) for c in cells]
             for i in range(natoms)}
    after = lambda t: [0] * t + [1] * (width - t)  # noqa: E731
    zeros = [0] * width
    table["go"] = after(k)
    table["stop"] = after(e) if end == "stop" else zeros
    if end == "mainstop":
        table["mainstop"] = after(e)
    elif end == "stop":
        table["mainstop"] = after(e + 2)
    else:
        table["mainstop"] = zeros
    max_steps = e if end == "maxsteps" else e + 4
    return table, max_steps, e


# ----------------------------------------------------------------------------------------------
# Observing the implementation
# ----------------------------------------------------------------------------------------------

_compiled = {}


def compile_cached(src):
    if src in _compiled:
        return _compiled[src]
    if len(_compiled) > 8:
        _compiled.clear()
    try:
        sc = ts.compile_scenario(src)
        ent = (sc, None)
    except Exception as e:  # judged by the caller
        ent = (None, e)
    _compiled[src] = ent
    return ent


def impl_tree(p):
    """Canonical form of the implementation's proposition tree (and/or flattened)."""
    name = type(p).__name__
    if name == "Atomic":
        ts.set_table({x: [1] for x in ATOMS})
        p.closure()
        reads = ts.STATE.reads
        if len(reads) != 1:
            return ("atom?", len(reads))
        return (reads[0][1],)
    if name in ("Always", "Eventually", "Next", "Not"):
        return (name.lower(), impl_tree(p.req))
    if name in ("And", "Or"):
        out = []
        for q in p.reqs:
            t = impl_tree(q)
            if t[0] == name.lower():
                out.extend(t[1:])
            else:
                out.append(t)
        return (name.lower(),) + tuple(out)
    if name in ("Until", "Implies"):
        return (name.lower(), impl_tree(p.lhs), impl_tree(p.rhs))
    return ("?" + name,)


def ir_tree(f):
    k = kind(f)
    if is_atom(f):
        return (k,)
    if k in ("and", "or"):
        out = []
        for x in f[1:]:
            t = ir_tree(x)
            if t[0] == k:
                out.extend(t[1:])
            else:
                out.append(t)
        return (k,) + tuple(out)
    return (k,) + tuple(ir_tree(x) for x in f[1:])


def all_traces(lens, natoms):
    for n in lens:
        for tr in itertools.product(range(1 << natoms), repeat=n):
            yield list(tr)


def is_rejection(e):
    from scenic.core.distributions import RejectionException

    return isinstance(e, RejectionException)


# ----------------------------------------------------------------------------------------------
# Judge
# ----------------------------------------------------------------------------------------------

def judge(case, collect=None):
    """case = {f, variant, place, k, end, natoms, lens | traces}.  `collect`, if given, receives
    (signature, single-trace case) for every failing trace so that the caller can record a
    reduced replayable example."""
    selfcheck()
    out = core.Outcome()
    f, variant, place = case["f"], case["variant"], case["place"]
    k, end, natoms = case.get("k", 0), case["end"], case.get("natoms", 2)
    fc = fclass(f)
    temporal = has_temporal(f)
    out.cls("place:" + place, "variant:" + variant, "end:" + end, "class:" + fc,
            "depth:%d" % depth_of(f))
    cell = f"{fc}:{place}"
    vals = case.get("vals")
    src = program(place, f, variant, case.get("ego", True), vals)
    if vals:
        out.cls("atoms:non-boolean")
        if any(v[1] is None for v in vals.values()):
            out.cls("atoms:None-as-false")

    def exc_sig(ex, default_cell):
        """Signature of a crash; the non-Boolean slice has its own cells (own root causes)."""
        sig = core.exc_signature(ex)
        if not vals:
            return None
        if isinstance(ex, IndexError) and any(v[1] is None for v in vals.values()):
            return "nonbool-atoms:None|" + sig
        if isinstance(ex, TypeError) and not temporal and place != "top":
            return "nonbool-atoms:runtime-and-or|" + sig
        return f"nonbool-atoms:{default_cell}|{sig}"

    out.cls("objects:1" if case.get("ego", True) else "objects:0")
    fatoms = atoms_of(f)
    failed = set()

    def fail(sig, tr=None, **detail):
        if tr is not None and collect is not None and sig not in failed:
            single = dict(case)
            single.pop("lens", None)
            single["traces"] = [list(tr)]
            collect.append((sig, single))
        if sig in failed and tr is not None:
            return
        failed.add(sig)
        out.fail(sig, formula=PRINTERS[variant](f), source=src,
                 trace=None if tr is None else list(tr), **detail)

    # -- compile ---------------------------------------------------------------------------
    sc, err = compile_cached(src)
    predicted_parse_error = needs_python_unparsable_group_before_implies(PRINTERS[variant](f))
    if err is not None:
        from scenic.core.errors import ScenicSyntaxError

        if predicted_parse_error and isinstance(err, ScenicSyntaxError):
            out.cls("unparsable:group-before-implies")
            fail("group-before-implies|" + type(err).__name__, error=str(err)[:200])
        else:
            fail(f"compile:{variant}:{place}|" + core.exc_signature(err), error=repr(err)[:300])
        return out

    # -- parse tree (top placement only: the requirement object exists at compile time) -------
    if place == "top":
        props = [r.proposition for r in sc.requirements if hasattr(r, "proposition")]
        if len(props) != 1:
            raise core.HarnessError(f"expected one user requirement, found {len(props)}\n{src}")
        got, want = impl_tree(props[0]), ir_tree(f)
        if got != want:
            fail(f"parse:{variant}|tree-differs", got=repr(got), want=repr(want))
            return out
        out.cls("tree-checked")

    # -- scene generation: the initial-scene check of the step-0 verdict --------------------
    full = (1 << natoms) - 1
    gen_ok = {}
    scene = None
    wcache = {}
    if place == "top":
        for v in range(full + 1):
            ts.set_table({ATOMS[i]: [cell_value(vals, ATOMS[i], v >> i & 1)]
                          for i in range(natoms)})
            try:
                s, _ = sc.generate(maxIterations=1, verbosity=0)
                gen_ok[v] = True
                if scene is None:
                    scene = s
            except Exception as e:
                if not is_rejection(e):
                    fail(exc_sig(e, "generate:" + place) or
                         f"{cell}|generate:" + core.exc_signature(e), error=repr(e)[:300],
                         step0=v)
                    return out
                gen_ok[v] = False
            bad = [r for r in ts.STATE.reads if r[0] != "gen" or r[2] != 0 or r[1] not in fatoms]
            if bad:
                fail(f"{cell}|generation-reads-unexpected-cell", reads=bad[:4])
            if not gen_ok[v]:
                # (v) soundness: rejected at generation => no trace starting like this satisfies f
                w = witness(f, [v], natoms, cache=wcache)
                if w is not None:
                    fail(f"{cell}|generation-rejects-but-continuation-exists", tr=w, step0=v)
            elif not sat(f, [v]) and witness(f, [v], natoms, cache=wcache) is None:
                out.cls("gen:late-detection")
            if (not temporal) and gen_ok[v] != sat(f, [v]):
                fail(f"{cell}|generation-verdict-of-non-temporal-requirement", step0=v,
                     generated=gen_ok[v])
        # (v) the generation-time verdict is the step-0 verdict of the monitor: generation rejects
        # a step-0 valuation exactly when a run that starts like this is rejected in step 0
        if scene is not None and end in END_MODES["top"]:
            for v in range(full + 1):
                table, max_steps, _e = build_table([v, v], 0, end, natoms, vals)
                try:
                    r = ts.run(scene, table, max_steps)
                except ts.TableError as ex:
                    raise core.HarnessError(f"{ex}\n{src}")
                except Exception as ex:
                    fail(exc_sig(ex, place) or f"{cell}|" + core.exc_signature(ex), tr=[v, v],
                         error=repr(ex)[:300])
                    break
                at0 = (not r.accepted) and r.rejected_at == 0
                if at0 != (not gen_ok[v]):
                    fail(f"{cell}|generation-verdict-differs-from-step-0-verdict", tr=[v, v],
                         generation_rejects=not gen_ok[v], step0_rejects=at0)
            out.cls("gen-vs-step0-checked")
    else:
        ts.set_table({})
        try:
            scene, _ = sc.generate(maxIterations=1, verbosity=0)
        except Exception as e:
            fail(f"{cell}|generate:" + core.exc_signature(e), error=repr(e)[:300])
            return out
        if ts.STATE.reads:
            raise core.HarnessError(f"table read while generating a scene without requirements\n{src}")

    # -- traces ----------------------------------------------------------------------------
    traces = case["traces"] if "traces" in case else all_traces(case["lens"], natoms)
    always_np = kind(f) == "always" and not has_temporal(f[1])
    nontrivial = False
    nsims = 0
    flags = set()
    crashes = ignored = 0
    for tr in traces:
        n = len(tr)
        # maxSteps=0 means "no limit": a run of one step in all cannot be ended by maxSteps and
        # is ended by the table-driven `terminate when` / end of the compose block instead
        tr_end = "stop" if (end == "maxsteps" and k + n - 1 < 1) else end
        truth = sat(f, tr)
        if temporal and not nontrivial:
            t1 = [tr[0] ^ full] + list(tr[1:])
            t2 = list(tr[:-1]) + [tr[-1] ^ full]
            nontrivial = sat(f, t1) != truth or sat(f, t2) != truth
        if place == "top" and not gen_ok[tr[0]]:
            # the scene is never generated: rejected (soundness judged above); (i) for this trace
            if truth:
                fail(f"{cell}|rejects-but-oracle-accepts:at-generation", tr=tr)
            continue
        if scene is None:
            continue
        table, max_steps, e = build_table(tr, k, tr_end, natoms, vals)
        try:
            r = ts.run(scene, table, max_steps)
        except ts.TableError as ex:
            raise core.HarnessError(f"{ex}\n{src}\n{table}")
        except Exception as ex:
            sig = core.exc_signature(ex)
            if vals:
                fail(exc_sig(ex, place), tr=tr, error=repr(ex)[:300])
            elif place.startswith("dyn") and temporal:
                fail(f"dynamic-require:{place}|{sig}", tr=tr, error=repr(ex)[:300])
            elif (not temporal) and any(kind(g) == "implies" for g in subformulas(f)):
                fail(f"nontemporal-implies:runtime|{sig}", tr=tr, error=repr(ex)[:300])
            else:
                fail(f"{cell}|{sig}", tr=tr, error=repr(ex)[:300])
            crashes += 1
            if crashes >= 3:
                flags.add("stopped-after-3-crashes")
                break  # the statement crashes whatever the trace is: no information in the rest
            continue
        nsims += 1
        cells = [(nm, s) for nm, s in r.read_cells() if nm in ATOMS]
        if r.reads and any(p != "sim" for p, _, _ in r.reads):
            raise core.HarnessError("table read outside the simulation during a run")
        # (iv) cells read: only atoms of f, only inside the window [k, e].  (Which cells inside
        # the window are read is not judged: a top-level requirement without temporal operators
        # is re-read at every step although only its step-0 value is used.)
        hi = e if r.accepted else min(e, r.rejected_at)
        outside = [c for c in cells if c[0] not in fatoms or not (k <= c[1] <= hi)]
        if outside:
            fail(f"{cell}|reads-outside-window", tr=tr, cells=outside[:4], window=[k, hi])
        if temporal or place == "top":
            want = {(x, s) for x in fatoms for s in range(k, hi + 1)}
        else:
            want = {(x, k) for x in fatoms}
        flags.add("reads:full-window" if set(cells) == want else "reads:partial-window")
        if not r.accepted and r.kind != "RejectSimulationException":
            fail(f"{cell}|rejected-by-{r.kind}", tr=tr, reason=r.reason)
            continue
        if not r.accepted and not (k <= r.rejected_at <= e):
            fail(f"{cell}|rejected-outside-window", tr=tr, at=r.rejected_at, window=[k, e])
            continue
        accepted = r.accepted
        rej = None if accepted else r.rejected_at - k  # position in the trace
        problems = []
        if accepted != truth:
            problems.append("accepts-but-oracle-rejects" if accepted else
                            ("rejects-early-but-oracle-accepts" if rej < n - 1 else
                             "rejects-at-end-but-oracle-accepts"))
        elif not accepted and rej < n - 1:
            w = witness(f, tr[:rej + 1], natoms, cache=wcache)
            if w is not None:
                problems.append("early-reject-but-continuation-exists")
        if always_np and not truth and not accepted:
            first = vec(f[1], tr).index(False)
            if rej != first:
                problems.append("always-rejected-late" if rej > first else "always-rejected-early")
        if not accepted and rej < n - 1:
            flags.add("early-rejection")
        if not problems:
            continue
        detail = dict(oracle=truth, accepted=accepted, rejected_at_position=rej, k=k, end=tr_end,
                      problems=problems)
        # attribution through defect models: only an exact prediction attributes
        rv = None
        if has_until(f) and b4_run(f, tr, True) == (accepted, rej):
            # the full model of rv_ltl predicts this run exactly; which of its two deviations?
            if b4_run(f, tr, False) == (accepted, rej) and until_with_temporal_rhs(f):
                # the index range plays no role: Until decided on the first *currently* truthy
                # position although an earlier one was only presumably false
                rv = "until-with-temporal-rhs|as-rvltl-first-truthy-position"
            elif until_under_temporal(f):
                rv = "until-under-temporal|as-rvltl-until-index-range"
        if place.startswith("dyn") and temporal and accepted and not cells:
            fail(f"dynamic-require:{place}|temporal-require-never-monitored", tr=tr, **detail)
            ignored += 1
            if ignored >= 3:
                flags.add("stopped-after-3-ignored")
                break  # the requirement is not monitored at all: the other traces say the same
        elif rv:
            fail(rv, tr=tr, **detail)
        elif vals and not temporal and place != "top" and bitwise_verdict(
                f, {x: cell_value(vals, x, tr[0] >> ATOMS.index(x) & 1) for x in fatoms}) == \
                ("accept" if accepted else "reject"):
            fail("nonbool-atoms:runtime-and-or|as-bitwise-and-or", tr=tr, **detail)
        elif vals and any(vals[x][1] is None and not (t >> ATOMS.index(x) & 1)
                          for x in fatoms for t in tr):
            # an atom returned None somewhere in the window: rv_ltl drops it from the atom's
            # history, the later values shift by one position (or the next read crashes)
            fail(f"nonbool-atoms:None|{problems[0]}", tr=tr, **detail)
        elif vals:
            fail(f"nonbool-atoms:{cell}|{problems[0]}", tr=tr, **detail)
        else:
            fail(f"{cell}|{problems[0]}", tr=tr, **detail)
    out.cls(*sorted(flags))
    stopped = {"stopped-after-3-crashes", "stopped-after-3-ignored"} & flags
    out.nontrivial = nontrivial and nsims > 0 and not stopped
    out.note = nsims
    return out


def replay(case):
    return judge(case)


# ----------------------------------------------------------------------------------------------
# Plan
# ----------------------------------------------------------------------------------------------

def build_cases(tier, seed):
    rng = _random.Random(f"C11:{seed}")
    quick = tier == "quick"
    fs = formulas_upto(2)
    lens = [1, 2, 3, 4] if quick else [1, 2, 3, 4, 5]
    cases = []
    # A. top level, minimal parentheses: every formula x every trace
    for f in fs:
        cases.append({"f": f, "variant": "min", "place": "top", "k": 0,
                      "end": rng.choice(["maxsteps", "maxsteps", "stop"]), "natoms": 2,
                      "lens": lens, "ego": rng.random() < 0.1})
    # B. the other parenthesisations: every formula parsed and compared as a tree, traces sampled
    for f in fs:
        for variant in ("full", "red"):
            if quick:
                trs = [[rng.randrange(4) for _ in range(rng.randint(1, 4))] for _ in range(8)]
                cases.append({"f": f, "variant": variant, "place": "top", "k": 0, "end": "stop",
                              "natoms": 2, "traces": trs})
            else:
                cases.append({"f": f, "variant": variant, "place": "top", "k": 0, "end": "stop",
                              "natoms": 2, "lens": [1, 2, 3]})
    # C. the other placements
    for place in ("setup", "dyn-sub", "dyn-top"):
        sub = rng.sample(fs, len(fs) // 6) if quick else fs
        for f in sub:
            k = rng.choice([0, 1, 1, 2])
            cases.append({"f": f, "variant": rng.choice(["min", "min", "full", "red"]),
                          "place": place, "k": k, "end": rng.choice(END_MODES[place]),
                          "natoms": 2, "lens": [1, 2, 3] if quick else [1, 2, 3, 4],
                          "ego": rng.random() < 0.5})
    # F. non-Boolean atoms: every atom returns a truthy / falsy Python value (1, 2, 'x', 0, None,
    # ''); the oracle uses their truth values
    truthy, falsy = [1, 2, "x", 3, True], [0, None, "", None, False]
    pool = [g for g in fs if not has_temporal(g) and depth_of(g) >= 1]
    for i in range(500 if quick else 4000):
        f = rng.choice(pool) if i % 3 == 0 else rng.choice(fs)
        place = rng.choice(["top", "setup", "setup", "dyn-sub", "dyn-top"])
        vals = {x: [rng.choice(truthy), rng.choice(falsy)] for x in ("a", "b")}
        if i % 5 == 0:
            vals = {"a": [1, 0], "b": [2, rng.choice(falsy)]}
        cases.append({"f": f, "variant": "min", "place": place, "k": 0 if place == "top" else 1,
                      "end": rng.choice(END_MODES[place]), "natoms": 2, "lens": [1, 2, 3],
                      "ego": False, "vals": vals})
    # E. `until` whose right operand is temporal (depth 3): seeded sample, short traces
    f1 = formulas_upto(1)
    rhs = [g for g in fs if has_temporal(g)]
    for _ in range(400 if quick else 6000):
        f = ["until", rng.choice(f1), rng.choice(rhs)]
        place = rng.choice(["top", "top", "top", "setup"])
        cases.append({"f": f, "variant": "min", "place": place, "k": 0 if place == "top" else 1,
                      "end": "stop", "natoms": 2, "lens": [1, 2, 3] if quick else [1, 2, 3, 4],
                      "ego": False})
    # D. deeper formulas, three atoms, longer traces (seeded sample)
    nd = 600 if quick else 12000
    seen = set()
    while len(seen) < nd:
        f = random_formula(rng, 3, rng.choice([2, 3, 3]))
        key = repr(f)
        if key in seen or depth_of(f) < 3:
            continue
        seen.add(key)
        place = rng.choice(["top", "top", "setup", "setup", "dyn-sub", "dyn-top"])
        natoms = 3 if "c" in atoms_of(f) else 2
        trs = [[rng.randrange(1 << natoms) for _ in range(rng.randint(1, 7))]
               for _ in range(40 if quick else 80)]
        cases.append({"f": f, "variant": rng.choice(["min", "min", "full", "red"]), "place": place,
                      "k": rng.choice([0, 1, 2]) if place != "top" else 0,
                      "end": rng.choice(END_MODES[place]), "natoms": natoms, "traces": trs,
                      "ego": rng.random() < 0.5})
    return cases


def plan(tier, seed, jobs):
    nshards = max(1, jobs) * 4
    return [{"seed": seed, "index": j, "of": nshards} for j in range(nshards)]


def run_shard(shard, tier):
    selfcheck()
    col = core.Collector(PROP, shard["id"])
    cases = build_cases(tier, shard["seed"])
    mine = cases[shard["index"]::shard["of"]]

    def work():
        for case in mine:
            red = []
            try:
                with core.time_limit(600):
                    out = judge(case, collect=red)
            except core.CaseTimeout:
                out = core.Outcome(inconclusive=True, classes=["timeout"])
            col.add(case, out)
            col.bump("simulations", out.note or 0)
            done = set()
            for sig, single in red:
                if sig in done or len(col.failures.get(sig, {}).get("examples", [])) > 3:
                    continue
                done.add(sig)
                o2 = judge(single)
                for s2, d2 in o2.failures:
                    if s2 == sig:
                        col.add_shrunk(sig, single, d2)
                        break

    work()
    col.extra["exhaustive_shards"] = 1
    return col.result()
