"""C12 — simulation steps run in the documented order and stop at the documented step.

Generated programs of the core dynamic fragment (nested scenarios with setup/compose, several
agents, sub-behaviours, monitors, records, every termination construct, durations in steps and
seconds) are compiled once and simulated on the harness-owned LoggingSimulator under several
(truth table, agent schedule, maxSteps, timestep) plans; the complete event log, the termination
type, the final clock, the trajectory length, the action log and the records are compared with
the reference step machine `vf.c12_model.Machine` written from
docs/reference/dynamic_scenarios.rst.
"""

from __future__ import annotations

import itertools

import os

from hypothesis import strategies as st

from vf import c12_model as M
from vf import core

PROP = "C12"
NEEDS_PARSER = True
FLOOR = 0.4
RULE = ("(1) a systematic grid: every duration construct (terminate after / wait for / do for, "
        "in steps and seconds, 8 durations) and every condition-driven construct (terminate "
        "[simulation] when, wait until, do until, terminate, terminate simulation) in every "
        "position (top-level scenario, sub-scenario, compose block, behaviour, sub-behaviour, "
        "monitor), each under all time steps {2,1,0.5,0.25,0.1,0.2} resp. all onset steps of the "
        "condition; (2) Hypothesis-generated programs of the dynamic fragment: top-level "
        "scenario (modular or plain) with setup and compose, up to 2 nested sub-scenarios "
        "invoked with do / do-for / do-until (sequential and parallel), 1-4 agents with "
        "behaviours and sub-behaviours, monitors, records, every termination construct, "
        "require, preconditions/invariants on scenarios and behaviours; a quarter of the programs "
        "are built around a monitor required by a sub-scenario (nesting depth 1-2, invoked with "
        "do / do-for / do-until / in parallel with another sub-scenario / repeatedly in a loop) "
        "that executes terminate or terminate simulation at a generated step while its invoker "
        "has more to do (classes shape:monitor-terminate-scope, monitor-terminate-in-"
        "subscenario[:parent-resumes|:sibling-continues|:depth2], monitor-terminate-simulation-"
        "in-subscenario); each program simulated "
        "under 6 plans = (truth table of its atoms, per-step agent schedule returned as list / "
        "tuple / one-shot iterator, maxSteps 2..8, timestep in {2,1,0.5,0.25,0.1,0.2}, "
        "raiseGuardViolations, optionally re-simulating the scene of the previous plan, "
        "optionally as second attempt of simulate(maxIterations=2) after a first attempt under "
        "another table).  A case is non-trivial when at least one judged run interleaves "
        ">= 3 event kinds in one step and ends for a reason other than maxSteps (or is "
        "rejected); distinct = digest of program and plans.")
ASSUMPTIONS = [
    "reference step machine vf.c12_model.Machine written from docs/reference/"
    "dynamic_scenarios.rst and statements.rst; behaviours the reference leaves open are either "
    "not judged (class unjudged:*) or every reading is accepted (reading flags "
    "until_starts_first, beh_term_deferred, termwhen_before_compose, comp_inv_after_sub)",
    "conditions are pure look-ups T(name) in a table indexed by simulation().currentTime; a "
    "duration in seconds is reached at the first step whose elapsed time is >= the duration "
    "(\"after the given amount of time\"); a duration/timestep pair is judged only when reading "
    "the numbers as the decimals written and as the binary floats they become give the same "
    "step (all dyadic pairs, most decimal ones; else class unjudged:duration/timestep)",
    "the order of monitors within step 3, of record statements within step 2 and of objects "
    "within step 9 is not documented: the log is compared modulo these orders; sub-scenarios "
    "of one parallel `do` are stepped in the order written",
    "the creation and first read-back of the initial objects (before step 0) are not described "
    "by the reference: only their multiset is checked",
    "defect models (switches of the reference machine reproducing a known deviation) are used "
    "only to give a failing run a stable signature, never to accept it",
]

TIMESTEPS = [2, 1, 0.5, 0.25, 0.1, 0.2]
ATOMS = ["c0", "c1", "c2", "c3"]

# ---------------------------------------------------------------------------------------------
# Strategy
# ---------------------------------------------------------------------------------------------


@st.composite
def programs(draw):
    nb = draw(st.integers(1, 3))
    nm = draw(st.integers(0, 2))
    # a quarter of the programs are built around "a monitor required by a sub-scenario executes
    # terminate [simulation] while that sub-scenario runs" (see scope_shape below)
    scope = draw(st.integers(0, 3)) == 0
    ns = draw(st.sampled_from([1, 2, 2] if scope else [0, 0, 1, 1, 2]))
    tagc = [0]

    def tag(prefix):
        tagc[0] += 1
        return f"{prefix}{tagc[0]}"

    def cond():
        a = draw(st.sampled_from(ATOMS))
        return ("!" + a) if draw(st.integers(0, 4)) == 0 else a

    def gcond():
        a = draw(st.sampled_from(ATOMS))
        return a if draw(st.integers(0, 6)) == 6 else "!" + a

    def dur():
        k = draw(st.integers(0, 4))
        if k < 2:
            return draw(st.integers(1, 4)), "steps"
        if k < 4:
            return draw(st.integers(1, 12)) * 0.25, "seconds"
        return draw(st.integers(1, 15)) / 10, "seconds"  # decimal, e.g. 0.3 seconds

    def ensure_yield(body, ctx):
        if not any(s[0] in ("take", "wait") for s in body):
            body.append(["take", draw(st.integers(1, 9))] if ctx == "beh" else ["wait"])
        return body

    YIELDING = ("take", "wait", "wait_for", "wait_until", "do", "do_for", "do_until",
                "terminate", "terminate_sim")

    def has_yielding(body):
        for s in body:
            if s[0] in YIELDING:
                return True
            if s[0] == "if" and (has_yielding(s[2]) or has_yielding(s[3])):
                return True
            if s[0] in ("for", "while") and has_yielding(s[2]):
                return True
        return False

    def block(ctx, depth, owner, maxn=3):
        n = draw(st.integers(1, maxn))
        return [stmt(ctx, depth, owner) for _ in range(n)]

    def stmt(ctx, depth, owner):
        kinds = ["log", "wait", "wait", "wait_for", "wait_until"]
        if ctx == "beh":
            kinds += ["take", "take", "take", "take"]
            if owner + 1 < nb:
                kinds += ["do", "do_for", "do_until"]
        if ctx == "comp" and owner + 1 <= ns:
            kinds += ["do", "do", "do_for", "do_until", "do"]
        kinds += ["terminate", "terminate_sim"]
        if draw(st.integers(0, 2)) == 0:
            kinds += ["require"]
        if depth > 0:
            kinds += ["if", "if", "for", "while"]
        k = draw(st.sampled_from(kinds))
        if k == "take":
            return ["take", draw(st.integers(1, 9))]
        if k == "wait":
            return ["wait"]
        if k == "log":
            return ["log", tag(ctx[0])]
        if k == "wait_for":
            return ["wait_for", *dur()]
        if k == "wait_until":
            return ["wait_until", cond()]
        if k in ("do", "do_for", "do_until"):
            if ctx == "beh":
                names = ["B%d" % draw(st.integers(owner + 1, nb - 1))]
            else:
                first = draw(st.integers(owner + 1, ns))
                names = ["S%d" % first]
                if first + 1 <= ns and draw(st.integers(0, 2)) == 0:
                    names.append("S%d" % draw(st.integers(first + 1, ns)))
            if k == "do":
                return ["do", names]
            if k == "do_for":
                return ["do_for", names, *dur()]
            return ["do_until", names, cond()]
        if k in ("terminate", "terminate_sim"):
            # mostly guarded by an atom that becomes true later in the run
            if draw(st.integers(0, 5)):
                return ["if", draw(st.sampled_from(ATOMS)), [[k]], []]
            return [k]
        if k == "require":
            a = draw(st.sampled_from(ATOMS))
            return ["require", a if draw(st.integers(0, 4)) == 0 else "!" + a]
        if k == "if":
            return ["if", cond(), block(ctx, depth - 1, owner, 2),
                    block(ctx, depth - 1, owner, 2) if draw(st.booleans()) else []]
        if k == "for":
            return ["for", draw(st.integers(1, 3)), block(ctx, depth - 1, owner, 2)]
        if k == "while":
            c = cond() if draw(st.booleans()) else None
            return ["while", c, ensure_yield(block(ctx, depth - 1, owner, 2), ctx)]
        raise AssertionError(k)

    behaviors = []
    for i in range(nb):
        body = block("beh", 2, i)
        if draw(st.integers(0, 2)) > 0:
            # the common shape: act forever
            body.append(["while", None, ensure_yield(block("beh", 1, i, 2), "beh")])
        if not has_yielding(body):  # a behaviour must contain a take/wait/do somewhere
            body.append(["take", draw(st.integers(1, 9))])
        behaviors.append({"name": f"B{i}", "pre": [gcond()] if draw(st.integers(0, 14)) == 0 else [],
                          "inv": [gcond()] if draw(st.integers(0, 9)) == 0 else [],
                          "body": body})
    monitors = []
    for i in range(nm):
        body = [["while", None, ensure_yield(block("mon", 1, i, 3), "mon")]]
        if draw(st.booleans()):
            body = block("mon", 1, i, 2) + body
        monitors.append({"name": f"M{i}", "body": body})

    objc = [0]

    def setup(i):
        out = []
        nobj = draw(st.integers(1, 3)) if i == 0 else draw(st.integers(0, 2))
        for _ in range(nobj):
            beh = f"B{draw(st.integers(0, nb - 1))}" if draw(st.integers(0, 4)) > 0 else None
            out.append(["obj", f"a{objc[0]}", beh])
            objc[0] += 1
        extra = draw(st.lists(st.sampled_from(
            ["term_when", "term_sim_when", "term_after", "record", "record", "record_initial",
             "record_final", "monitor", "monitor"]), max_size=4))
        if i > 0:
            # statements which the unchanged tree mishandles in sub-scenarios are kept rare
            extra = [k for k in extra if k in ("term_after", "monitor")
                     or draw(st.integers(0, 5)) == 0]
        seen_after = False
        for k in extra:
            if k == "term_when":
                out.append(["term_when", draw(st.sampled_from(ATOMS))])
            elif k == "term_sim_when":
                out.append(["term_sim_when", draw(st.sampled_from(ATOMS))])
            elif k == "term_after" and not seen_after:
                seen_after = True
                out.append(["term_after", *dur()])
            elif k in ("record", "record_initial", "record_final"):
                out.append([k, tag("r")])
            elif k == "monitor" and nm:
                out.append(["monitor", f"M{draw(st.integers(0, nm - 1))}"])
        if i == 0 and not any(x[0].startswith("term_") for x in out) \
                and draw(st.integers(0, 2)) > 0:
            kk = draw(st.sampled_from(["term_after", "term_when", "term_sim_when"]))
            out.append(["term_after", *dur()] if kk == "term_after"
                       else [kk, draw(st.sampled_from(ATOMS))])
        return out

    def scope_shape(scenarios, monitors):
        """Sub-scenario S_i requires a monitor that executes `terminate` (sometimes `terminate
        simulation`) at a generated step; S_i is invoked for certain (do / do-for / do-until /
        parallel / in a loop, from Main or through S_1) and its invoker has something left to
        do afterwards.  No other monitor is instantiated in S_i or below it (what happens to
        sibling monitors of a stopped scenario within the step is not documented)."""
        i = draw(st.integers(1, ns))
        what = "terminate_sim" if draw(st.integers(0, 3)) == 0 else "terminate"
        a = draw(st.sampled_from(ATOMS))
        style = draw(st.integers(0, 3))
        if style == 0:
            body = [["wait_for", *dur()], ["log", tag("m")], [what]]
        elif style == 1:
            body = [["wait_until", a], ["log", tag("m")], [what]]
        else:
            body = [["wait"]] * draw(st.integers(0, 2)) + [
                ["while", None, [["if", a, [["log", tag("m")], [what]], []], ["wait"]]]]
        mt = {"name": f"M{len(monitors)}", "body": body}
        monitors.append(mt)
        for sc in scenarios[i:]:
            sc["setup"] = [x for x in sc["setup"] if x[0] != "monitor"]
        scenarios[i]["setup"].append(["monitor", mt["name"]])
        if draw(st.integers(0, 2)) == 0:
            # the monitor is the only thing that can end the sub-scenario
            scenarios[i]["compose"] = draw(st.sampled_from(
                [None, [["while", None, [["log", tag("c")], ["wait"]]]]]))

        # most of the time nothing else ends the run early
        for sc in (scenarios[0], scenarios[i]):
            if draw(st.integers(0, 3)):
                sc["pre"], sc["inv"] = [], []
                sc["setup"] = [x for x in sc["setup"] if not x[0].startswith("term_")]

        def invoke(j, k):
            sc = scenarios[j]
            names = [f"S{k}"]
            if j == 0 and ns == 2 and draw(st.booleans()):
                # in parallel with the other sub-scenario, which goes on when this one is ended
                names.insert(draw(st.integers(0, 1)), f"S{3 - k}")
            form = draw(st.integers(0, 5))
            if form == 0:
                do = ["do_for", names, *dur()]
            elif form == 1:
                do = ["do_until", names, cond()]
            else:
                do = ["do", names]
            if form == 2:
                do = ["for", 2, [do]]
            comp = sc["compose"] if sc["compose"] is not None else []
            at = draw(st.integers(0, len(comp))) if draw(st.booleans()) else 0
            after = [["log", tag("c")], ["wait"]] + [["wait"]] * draw(st.integers(0, 2))
            sc["compose"] = comp[:at] + [do] + after + comp[at:]

        if i == 2 and draw(st.booleans()):
            invoke(1, 2)
            invoke(0, 1)
        else:
            invoke(0, i)

    scenarios = []
    for i in range(ns + 1):
        has_compose = draw(st.integers(0, 3)) > 0 if i == 0 else draw(st.booleans())
        comp = block("comp", 2, i) if has_compose else None
        if comp is not None and draw(st.integers(0, 2)) > 0:
            # most compose blocks stay alive for a while
            comp.append(draw(st.sampled_from([["wait_for", 3, "steps"], ["wait_for", 2, "seconds"],
                                              ["while", None, [["wait"]]],
                                              ["wait_until", draw(st.sampled_from(ATOMS))]])))
        if comp is not None and not has_yielding(comp):
            comp.append(["wait"])
        pre, inv = [], []
        if draw(st.integers(0, 7)) == 0:
            pre.append(gcond())
        if draw(st.integers(0, 4)) == 0:
            inv.append(gcond())
        scenarios.append({"name": "Main" if i == 0 else f"S{i}", "pre": pre, "inv": inv,
                          "setup": setup(i), "compose": comp})
    if scope:
        scope_shape(scenarios, monitors)
    toplevel = (ns == 0 and scenarios[0]["compose"] is None and not scenarios[0]["pre"]
                and not scenarios[0]["inv"] and draw(st.booleans()))
    prog = {"behaviors": behaviors, "monitors": monitors, "scenarios": scenarios,
            "toplevel": toplevel}
    if scope:
        prog["shape"] = "monitor-terminate-scope"  # (a label for the class histogram only)
    return prog


def agent_names(prog):
    return [s[1] for sc in prog["scenarios"] for s in sc["setup"] if s[0] == "obj" and s[2]]


@st.composite
def plans(draw, prog):
    n = draw(st.sampled_from([4, 6, 3, 5, 8, 2, 7]))
    table = {}
    for a in ATOMS:
        style = draw(st.integers(0, 3))
        if style == 0:
            row = [0] * (n + 1)
        elif style == 1:
            k = draw(st.integers(1, n))
            row = [1 if t >= k else 0 for t in range(n + 1)]
        elif style == 2:
            k = draw(st.integers(0, n))
            row = [1 if t == k else 0 for t in range(n + 1)]
        else:
            row = [draw(st.integers(0, 1)) for _ in range(n + 1)]
        table[a] = row
    names = agent_names(prog)
    sched = []
    if len(names) > 1 and draw(st.integers(0, 3)) > 0:
        for _ in range(draw(st.integers(1, 3))):
            sched.append(draw(st.permutations(names)))
    kind = draw(st.sampled_from(["list", "list", "list", "list", "tuple", "list", "list", "iter"]))
    pre = None
    if draw(st.integers(0, 5)) == 0:
        # a first attempt of simulate(maxIterations=2) under another table (all atoms true from
        # step k on: requirements/guards written with "!c" then fail and reject the attempt)
        k = draw(st.integers(0, n))
        pre = {a: [1 if t >= k else 0 for t in range(n + 1)] for a in ATOMS}
    return {"table": table, "schedule": [list(s) for s in sched], "schedule_kind": kind,
            "same_scene": draw(st.integers(0, 2)) == 0, "pre": pre,
            "maxSteps": n,
            "timestep": draw(st.sampled_from(TIMESTEPS)), "raise": draw(st.booleans())}


@st.composite
def cases(draw, nruns=6):
    prog = draw(programs())
    runs = [draw(plans(prog)) for _ in range(nruns)]
    return {"prog": prog, "runs": runs}


# ---------------------------------------------------------------------------------------------
# Judge
# ---------------------------------------------------------------------------------------------

CELLS = [
    ("try-interrupt", ("handler-entered", "abort", "ctl-in-try:break", "ctl-in-try:continue",
                       "ctl-in-try:return", "handler-preempted-by-handler")),
    ("guards", ("guard-violated",)),
    ("monitors", ("mon-terminate", "mon-terminate-sim")),
    ("sub-scenarios", ("sub-reqlike", "sub-scenario", "parallel-do")),
    ("sub-behaviours", ("sub-behavior", "do-limit-hit")),
]


#: generator shapes around the scope of `terminate` / `terminate simulation` in a monitor
SCOPE_CLASSES = [
    ("mon-terminate-sub", "monitor-terminate-in-subscenario"),
    ("mon-terminate-sub:parent-resumes", "monitor-terminate-in-subscenario:parent-resumes"),
    ("mon-terminate-sub:sibling-continues", "monitor-terminate-in-subscenario:sibling-continues"),
    ("mon-terminate-sub:depth2", "monitor-terminate-in-subscenario:depth2"),
    ("mon-terminate-sim-sub", "monitor-terminate-simulation-in-subscenario"),
]


def primary(features):
    """Coarse structural cell of a run (kept coarse so that one root cause maps to a handful
    of signatures)."""
    for name, fs in CELLS:
        if any(f in features for f in fs):
            return name
    return "core"


def expected_set(prog, plan, defects=None, ti_flags=None):
    """All outcomes the reference allows for one run: list of result dicts, or a string
    ("unjudged:<why>" / "stall").  With a defect model (used only to name a failure) readings
    that end unjudged are skipped instead of making the whole run unjudged."""
    seen = {}
    todo = [frozenset()]
    results = []
    while todo:
        on = todo.pop()
        if on in seen:
            continue
        m = M.Machine(prog, plan["table"], plan["schedule"], plan["maxSteps"],
                      plan["timestep"], flags={f: True for f in on}, defects=defects,
                      ti_flags=ti_flags)
        try:
            r = m.run()
        except M.Unjudged as e:
            if defects:
                seen[on] = None
                if on:
                    continue
                # the default reading is unjudged: still try the other reading of each flag
                for f in M.FLAGS:
                    if frozenset({f}) not in seen and len(seen) + len(todo) < 16:
                        todo.append(frozenset({f}))
                continue
            return "unjudged:" + str(e)
        except M.StallRef:
            return "stall"
        seen[on] = r
        results.append(r)
        for f in sorted(r["consulted"]):
            for alt in (on | {f}, on - {f}):
                alt = frozenset(alt)
                if alt not in seen and alt not in todo and len(seen) + len(todo) < 16:
                    todo.append(alt)
    if defects and not results:
        return "unjudged:every reading of the defect model"
    return results


def expected_for(prog, plan, defects=None, ti_flags=None):
    """Expected outcomes of one simulate() call; with plan["pre"], of simulate(maxIterations=2)
    whose first attempt runs under the table plan["pre"]."""
    if plan.get("pre"):
        first = expected_set(prog, dict(plan, table=plan["pre"], pre=None), defects, ti_flags)
        if isinstance(first, str):
            return first
        rej = [r["status"] == "rejected" or (r["status"] == "guard" and not plan["raise"])
               for r in first]
        if all(rej):
            for r in first:
                r["features"].add("first-attempt-rejected")
            second = expected_set(prog, dict(plan, pre=None), defects, ti_flags)
            if not isinstance(second, str):
                for r in second:
                    r["features"].add("second-attempt")
            return second
        if any(rej):
            return "unjudged:first-attempt-rejected-under-some-readings"
        return first
    return expected_set(prog, plan, defects, ti_flags)


def _frac(x):
    from fractions import Fraction

    return Fraction(x)


def compare(obs, exp, n_initial, raise_guards):
    """None if the observation equals the expected outcome, else a short symptom."""
    est = exp["status"]
    if est == "guard" and not raise_guards:
        est = "rejected"
    if obs["status"] != est:
        return f"status:{obs['status']}-expected-{est}"
    if obs["time"] != exp["time"]:
        return "clock:" + ("late" if obs["time"] > exp["time"] else "early")
    if obs["status"] == "guard" and obs["exc"] not in exp["classes"]:
        return "guard-class"
    if obs["destroyed"] != 1 or tuple(obs["log"][-1]) != ("destroy", exp["time"]):
        return "destroy"
    if obs["status"] == "done":
        olog, ok = M.canon_log(obs["log"], n_initial)
        if not ok:
            return "setup-prefix"
        elog = M.canon_log(exp["log"], 0)[0]
        if olog != elog:
            for a, b in itertools.zip_longest(olog, elog):
                if a != b:
                    ka = a[0] if a else "end"
                    kb = b[0] if b else "end"
                    return f"log:{ka}-where-{kb}"
        r = obs["result"]
        if exp["types"] is not None and r["terminationType"] not in exp["types"]:
            return "terminationType:" + r["terminationType"]
        if r["currentTime"] != exp["time"] or r["trajectory_len"] != exp["time"] + 1:
            return "trajectory-length"
        if r["actions"] != exp["actions"]:
            return "action-log"
        if r["records"] != exp["records"]:
            return "records"
        dt = obs["timestep"]
        for t, state in enumerate(r["trajectory"]):
            for p in state[:n_initial]:
                if abs(p[0] - t * dt) > 1e-9:
                    return "trajectory-state"
    else:
        # rejected runs: the steps completed before the rejection must be as expected
        t_end = exp["time"]
        if t_end > 0:
            olog, ok = M.canon_log([e for e in obs["log"] if e[1] < t_end], n_initial)
            if not ok:
                return "setup-prefix"
            elog = M.canon_log([e for e in exp["log"] if e[1] < t_end], 0)[0]
            if olog != elog:
                return "log-before-rejection"
    return None


DEFECT_SLUGS = {"sub_reqlike": "sub-scenario-setup-statement-acts-as-requirement",
                "mon_term_sub": "monitor-terminate-in-sub-scenario-ends-simulation",
                "ti_inv": "inv-under-try"}
DEFECT_MODELS = []
for _n in (1, 2, 3):
    for _c in itertools.combinations(sorted(DEFECT_SLUGS), _n):
        DEFECT_MODELS.append(({d: True for d in _c},
                              "+".join(sorted(DEFECT_SLUGS[d] for d in _c))))


def compile_prog(prog):
    import scenic

    src = M.emit(prog)
    name = None if prog.get("toplevel") else "Main"
    return src, scenic.scenarioFromString(src, scenario=name, mode2D=False)


def judge(case):
    from vf import dynsim

    out = core.Outcome()
    prog = case["prog"]
    try:
        src, scenario = compile_prog(prog)
    except Exception as e:
        out.fail("compile|" + core.exc_signature(e), source=M.emit(prog), error=repr(e)[:500])
        return out
    n_initial = sum(1 for s in prog["scenarios"][0]["setup"] if s[0] == "obj")
    if prog.get("shape"):
        out.cls("shape:" + prog["shape"])
    judged = 0
    poisoned = False
    prev_scene = None
    for plan in case["runs"]:
        exps = expected_for(prog, plan)
        if isinstance(exps, str):
            out.cls(exps if exps == "stall" else exps.split(" ")[0])
            out.cls("run:" + ("stall" if exps == "stall" else "unjudged"))
            continue
        if poisoned and "top-guard-at-start" in exps[0]["features"]:
            out.cls("run:skipped-after-scenario-left-running")
            continue
        p = dynsim.Plan(plan["table"], plan["schedule"], plan.get("schedule_kind", "list"))
        out.cls("sched:" + plan.get("schedule_kind", "list"))
        if plan.get("pre"):
            p.attempts = [plan["pre"], plan["table"]]
        reuse = prev_scene if plan.get("same_scene") else None
        if reuse is not None:
            out.cls("scene:reused")
        obs = dynsim.run(scenario, p, maxSteps=plan["maxSteps"], timestep=plan["timestep"],
                         raiseGuardViolations=plan["raise"], scene=reuse,
                         maxIterations=2 if plan.get("pre") else 1)
        prev_scene = obs.pop("scene")
        obs["timestep"] = plan["timestep"]
        judged += 1
        if obs["left_running"]:
            out.fail("toplevel-guard-violated|scenario-object-left-running", source=src,
                     plan=plan)
            src, scenario = compile_prog(prog)
            poisoned = True
            prev_scene = None
        feats = set().union(*[r["features"] for r in exps])
        out.cls("run:judged", *["f:" + f for f in sorted(feats)])
        out.cls(*[c for f, c in SCOPE_CLASSES if f in feats])
        if len(exps) > 1:
            out.cls("readings>1")
        e0 = exps[0]
        out.cls("t_end:%d" % e0["time"])
        out.cls("end:" + (e0["status"] if e0["status"] != "done" else
                          "+".join(sorted(e0["types"])) if e0["types"] else "any"))
        if obs["status"] in ("error", "stall"):
            out.fail(f"{primary(feats)}|{obs['status']}:{obs.get('sig', '')}", source=src,
                     plan=plan, error=obs.get("repr"))
            continue
        syms = [compare(obs, r, n_initial, plan["raise"]) for r in exps]
        if any(s is None for s in syms):
            if interesting(exps[syms.index(None)]):
                out.nontrivial = True
            continue
        # attribute to a modelled defect of the unchanged tree if its model reproduces the run
        sig = None
        models = list(DEFECT_MODELS)
        if plan.get("schedule_kind") == "iter":
            models = [({"sched_consumed": True}, "one-shot-schedule-consumed-by-validation")] + \
                models + \
                [(dict(d, sched_consumed=True), t + "+one-shot-schedule-consumed-by-validation")
                 for d, t in DEFECT_MODELS]
        for dset, title in models:
            alt = expected_for(prog, plan, defects=dset)
            if not isinstance(alt, str) and any(
                    compare(obs, r, n_initial, plan["raise"]) is None for r in alt):
                sig = f"defect:{title}|wrong-run"
                break
        if sig is None:
            sig = f"{primary(feats)}|{syms[0]}"
        out.fail(sig, source=src, plan=plan, symptom=syms,
                 expected={k: M.tolist(v) if k in ("log", "actions") else repr(v)
                           for k, v in exps[0].items() if k in
                           ("status", "time", "types", "log", "actions", "classes")},
                 observed={k: v for k, v in obs.items() if k in
                           ("status", "time", "exc", "log", "result")})
    if judged == 0:
        out.cls("case:no-judged-run")
    return out


def interesting(exp):
    """>= 3 event kinds interleaved within one step, and the run ends for a reason other than
    the step limit."""
    if exp["status"] == "done" and exp["types"] == {"timeLimit"}:
        return False
    per = {}
    for e in exp["log"]:
        per.setdefault(e[1], set()).add(e[0])
    return any(len(k) >= 3 for k in per.values())


# ---------------------------------------------------------------------------------------------
# Systematic grid: every duration / termination construct in every position, all time steps
# ---------------------------------------------------------------------------------------------

def grid_cases():
    forever = lambda k: [["while", None, [["take", k]]]]  # noqa: E731
    DURS = [(1, "steps"), (2, "steps"), (3, "steps"), (0.5, "seconds"), (0.75, "seconds"),
            (1, "seconds"), (1.5, "seconds"), (2, "seconds"), (0.3, "seconds"),
            (0.7, "seconds"), (1.2, "seconds")]
    MON = {"name": "M0", "body": [["while", None, [["log", "m"], ["wait"]]]]}

    def base():
        return {"behaviors": [{"name": "B0", "pre": [], "inv": [], "body": forever(1)},
                              {"name": "B1", "pre": [], "inv": [], "body": forever(7)}],
                "monitors": [dict(MON)],
                "scenarios": [{"name": "Main", "pre": [], "inv": [], "compose": None,
                               "setup": [["obj", "a0", "B0"], ["obj", "a1", "B1"],
                                         ["monitor", "M0"], ["record", "r"],
                                         ["record_final", "rf"]]}],
                "toplevel": False}

    def sub(setup_extra, compose=None):
        return {"name": "S1", "pre": [], "inv": [], "compose": compose,
                "setup": [["obj", "a2", "B1"]] + setup_extra}

    progs = []
    for off in (0, 1):
        lead_b = [["take", 5]] * off
        lead_c = [["log", "lead"], ["wait"]] * off
        for n, unit in DURS:
            d = [n, unit]
            # terminate after: top level / sub-scenario
            p = base(); p["scenarios"][0]["setup"].append(["term_after", *d]); progs.append(p)
            p = base(); p["scenarios"].append(sub([["term_after", *d]]))
            p["scenarios"][0]["compose"] = lead_c + [["do", ["S1"]], ["log", "after"], ["wait"]]
            progs.append(p)
            # wait for: behaviour / compose / monitor
            p = base(); p["behaviors"][0]["body"] = lead_b + [["wait_for", *d]] + forever(2)
            progs.append(p)
            p = base(); p["scenarios"][0]["compose"] = lead_c + [["wait_for", *d], ["log", "after"]]
            progs.append(p)
            p = base(); p["monitors"][0]["body"] = [["log", "m-lead"], ["wait"]] * off + [
                ["wait_for", *d], ["log", "m-after"], ["terminate"]]
            progs.append(p)
            # do for: sub-behaviour / sub-scenario
            p = base(); p["behaviors"][0]["body"] = lead_b + [["do_for", ["B1"], *d]] + forever(2)
            progs.append(p)
            p = base(); p["scenarios"].append(sub([]))
            p["scenarios"][0]["compose"] = lead_c + [["do_for", ["S1"], *d], ["log", "after"],
                                                     ["wait"]]
            progs.append(p)
    cases = []
    for p in progs:
        runs = [{"table": {a: [0] * 10 for a in ATOMS}, "schedule": [["a1", "a0", "a2"]],
                 "maxSteps": 9, "timestep": dt, "raise": False} for dt in TIMESTEPS]
        cases.append({"prog": p, "runs": runs})

    # condition-driven constructs: the condition becomes true at step k
    cprogs = []
    guard = lambda st_: [["while", None, [["if", "c0", [st_], []], ["wait"]]]]  # noqa: E731
    for st_ in (["terminate"], ["terminate_sim"]):
        p = base(); p["behaviors"][0]["body"] = [["while", None, [["if", "c0", [st_], []],
                                                                  ["take", 1]]]]
        cprogs.append(p)                                            # agent of the top level
        p = base(); p["scenarios"][0]["compose"] = guard(st_); cprogs.append(p)   # compose
        p = base(); p["monitors"][0]["body"] = guard(st_); cprogs.append(p)       # monitor
        p = base(); p["behaviors"].append({"name": "B2", "pre": [], "inv": [],
                                            "body": [["while", None, [["if", "c0", [st_], []],
                                                                      ["take", 3]]]]})
        s1 = sub([]); s1["setup"] = [["obj", "a2", "B2"]]
        p["scenarios"].append(s1)
        p["scenarios"][0]["compose"] = [["do", ["S1"]], ["log", "after"], ["wait"], ["wait"]]
        cprogs.append(p)                                            # agent of a sub-scenario
        p = base(); p["scenarios"].append(sub([], guard(st_)))
        p["scenarios"][0]["compose"] = [["do", ["S1"]], ["log", "after"], ["wait"], ["wait"]]
        cprogs.append(p)                                            # compose of a sub-scenario
    # a monitor required by a sub-scenario executes terminate / terminate simulation: only
    # `terminate simulation` ends the simulation, `terminate` ends the scenario which
    # instantiated the monitor (its invoker resumes at the next step, the rest of the step runs)
    def sub_with_monitor(name, obj, compose=None, monitor="M1"):
        return {"name": name, "pre": [], "inv": [], "compose": compose,
                "setup": [["obj", obj, "B1"]] + ([["monitor", monitor]] if monitor else [])}

    alive = [["while", None, [["log", "sub"], ["wait"]]]]
    tail = [["log", "after"], ["wait"], ["wait"]]
    for st_ in (["terminate"], ["terminate_sim"]):
        def mon_prog(body=None):
            p = base()
            p["monitors"].append({"name": "M1", "body": body or [
                ["while", None, [["log", "m1"], ["if", "c0", [st_], []], ["wait"]]]]})
            return p

        for comp in (None, alive):                                  # do S1
            p = mon_prog(); p["scenarios"].append(sub_with_monitor("S1", "a2", comp))
            p["scenarios"][0]["compose"] = [["do", ["S1"]]] + tail
            cprogs.append(p)
        p = mon_prog(); p["scenarios"].append(sub_with_monitor("S1", "a2", alive))
        p["scenarios"][0]["compose"] = [["log", "lead"], ["wait"], ["do_for", ["S1"], 2, "steps"]] + tail
        cprogs.append(p)                                            # do S1 for 2 steps
        p = mon_prog(); p["scenarios"].append(sub_with_monitor("S1", "a2"))
        p["scenarios"][0]["compose"] = [["do_until", ["S1"], "c1"]] + tail
        cprogs.append(p)                                            # do S1 until (never)
        p = mon_prog(); p["scenarios"].append(sub_with_monitor("S1", "a2", alive))
        p["scenarios"].append(sub_with_monitor(
            "S2", "a3", [["log", "s2"], ["wait"]] * 3, monitor=None))
        p["scenarios"][0]["compose"] = [["do", ["S1", "S2"]]] + tail
        cprogs.append(p)                                            # do S1, S2 (S2 goes on)
        p = mon_prog(); p["scenarios"].append(sub_with_monitor("S2", "a3", alive))
        p["scenarios"].insert(1, sub_with_monitor(
            "S1", "a2", [["do", ["S2"]], ["log", "s1-after"], ["wait"]], monitor=None))
        p["scenarios"][0]["compose"] = [["do", ["S1"]]] + tail
        cprogs.append(p)                                            # nesting depth 2
        p = mon_prog(); p["scenarios"].append(sub_with_monitor("S1", "a2"))
        p["scenarios"][0]["compose"] = [["for", 2, [["do", ["S1"]], ["log", "again"], ["wait"]]]] + tail
        cprogs.append(p)                                            # a fresh monitor per invocation
        p = mon_prog([["log", "m1-start"], ["wait_for", 2, "steps"], ["log", "m1-after"], st_])
        p["scenarios"].append(sub_with_monitor("S1", "a2", alive))
        p["scenarios"][0]["compose"] = [["wait_until", "c0"], ["do", ["S1"]]] + tail
        cprogs.append(p)                                            # the monitor's own clock
        p = mon_prog(); p["scenarios"].append(sub_with_monitor("S1", "a2", alive, monitor=None))
        p["scenarios"][0]["setup"] = [x for x in p["scenarios"][0]["setup"] if x[0] != "monitor"]
        p["scenarios"][0]["setup"].append(["monitor", "M1"])
        p["scenarios"][0]["compose"] = [["do", ["S1"]]] + tail
        cprogs.append(p)                                            # monitor of the invoker
    for k in ("term_when", "term_sim_when"):
        p = base(); p["scenarios"][0]["setup"].append([k, "c0"]); cprogs.append(p)
    p = base(); p["behaviors"][0]["body"] = [["wait_until", "c0"]] + forever(2); cprogs.append(p)
    p = base(); p["behaviors"][0]["body"] = [["do_until", ["B1"], "c0"]] + forever(2)
    cprogs.append(p)
    p = base(); p["scenarios"][0]["compose"] = [["wait_until", "c0"], ["log", "after"], ["wait"]]
    cprogs.append(p)
    p = base(); p["scenarios"].append(sub([]))
    p["scenarios"][0]["compose"] = [["do_until", ["S1"], "c0"], ["log", "after"], ["wait"]]
    cprogs.append(p)
    p = base(); p["monitors"][0]["body"] = [["wait_until", "c0"], ["log", "m-after"],
                                            ["terminate_sim"]]
    cprogs.append(p)
    for p in cprogs:
        runs = []
        for k in range(0, 5):
            tab = {a: [0] * 8 for a in ATOMS}
            tab["c0"] = [1 if t >= k else 0 for t in range(8)]
            runs.append({"table": tab, "schedule": [["a2", "a1", "a0"], ["a0", "a1", "a2"]],
                         "maxSteps": 7, "timestep": 0.5, "raise": False})
        cases.append({"prog": p, "runs": runs})
    return cases


def replay(case):
    return judge(case)


def plan(tier, seed, jobs):
    n = 100 if tier == "quick" else 2500
    return [{"seed": seed * 1000 + k, "n": n, "grid": [k, jobs]} for k in range(jobs)]


def run_shard(shard, tier):
    from vf import dynsim

    dynsim.selftest()
    M.selftest()
    col = core.Collector(PROP, shard["id"])
    k, jobs = shard.get("grid", [0, 1])
    for i, case in enumerate(grid_cases()):
        if i % jobs == k:
            with core.time_limit(60):
                col.add(case, judge(case))
    core.hyp_search(cases(), judge, shard["n"], shard["seed"], col,
                    known_sigs=shard.get("known_sigs", ()), case_timeout=60,
                    shrink_s=20 if tier == "quick" else 120,
                    shrink=not os.environ.get("VF_NOSHRINK"))
    return col.result()
