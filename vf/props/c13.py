"""C13 — interrupts pre-empt and resume as documented; guards are checked when promised.

Generated behaviours with nested try-interrupt statements (depth <= 3, <= 3 handlers each;
handler bodies from take / do Sub() / abort / break / continue / return / nested try-interrupt /
loops), preconditions and invariants on behaviours and sub-behaviours.  Every interrupt condition
and guard is a truth-table look-up `T(name)`; each compiled program is simulated under all
step-indexed tables when they are few (<= cap), otherwise under a seeded sample.  Oracle: the
continuation-stack reference interpreter `vf.c12_model.Machine` following
docs/reference/statements.rst; compared: the whole event log (action sequence of every agent),
the rejection step and the exception class (GuardViolation subclasses with
raiseGuardViolations).
"""

from __future__ import annotations

import itertools
import os
import random

from hypothesis import strategies as st

from vf import c12_model as M
from vf import core
from vf.props import c12

PROP = "C13"
NEEDS_PARSER = True
FLOOR = 0.4
RULE = ("Hypothesis-generated programs, two families.  (a) 1-2 agents running a behaviour "
        "with try-interrupt statements nested up to depth 3 (directly and through loops) with "
        "up to 3 handlers each, inside loops and sub-behaviours (do / do-for / do-until), handler "
        "bodies containing take, do, abort, break, continue, return, nested statements and "
        "loops; preconditions/invariants (also raising RejectionException) on behaviours, "
        "sub-behaviours and the top-level scenario.  (b) try-interrupt statements in compose "
        "blocks (depth <= 2) whose blocks start sub-scenarios (do / do-for / do-until, also "
        "parallel and nested); every sub-scenario carries a monitor logging each step it is "
        "alive, so pre-emption, resumption and abandonment of sub-scenarios are observable.  "
        "Each program is run under every table of its 2-3 atoms over 3-5 steps when <= cap "
        "tables (quick 256, thorough 2048), else a seeded sample of cap tables; every other "
        "table re-simulates the scene of the previous one.  Non-trivial = on some table a "
        "handler pre-empts another handler, or abort/break/continue/return is executed inside a "
        "try-interrupt block, or a sub-scenario is abandoned, or a guard is violated after step "
        "0; distinct = digest of the program and table selection.")
ASSUMPTIONS = [
    "reference interpreter vf.c12_model.Machine (explicit continuation stacks) written from "
    "docs/reference/statements.rst (try-interrupt, abort, behaviour definition) and "
    "dynamic_scenarios.rst; break/continue/return have Python's meaning with respect to the "
    "loop/behaviour enclosing the statement",
    "`abort` is generated only directly inside handlers (the reference does not say what it "
    "means inside the try block of a nested statement); tables on which the reference "
    "interpreter finds a loop that never advances time are not run (class stall)",
    "conditions are pure functions of the time step, so the order in which the implementation "
    "evaluates them is not observable and not judged",
    "a sub-scenario whose `do` is suspended under a pre-empted block stays running (its "
    "monitors run) but is not stepped; whether `terminate after` counts the suspended steps is "
    "not documented: both readings are accepted",
]

COUNTS = {}


def bump(k, n=1):
    COUNTS[k] = COUNTS.get(k, 0) + n


# ---------------------------------------------------------------------------------------------
# Strategy
# ---------------------------------------------------------------------------------------------

@st.composite
def programs(draw):
    k = draw(st.sampled_from([2, 2, 3, 3, 3]))
    atoms = [f"c{i}" for i in range(k)]
    nb = draw(st.integers(1, 3))
    actc = [0]

    def act():
        actc[0] = actc[0] % 9 + 1
        return ["take", actc[0]]

    def cond():
        a = draw(st.sampled_from(atoms))
        return ("!" + a) if draw(st.integers(0, 5)) == 0 else a

    def gcond():
        a = draw(st.sampled_from(atoms))
        r = draw(st.integers(0, 7))
        return ("rej:" + a) if r == 0 else ("!" + a) if r == 1 else a

    def dur():
        if draw(st.integers(0, 3)) > 0:
            return draw(st.integers(1, 3)), "steps"
        return draw(st.integers(1, 3)), "seconds"

    def body(owner, ti, loop, handler, depth, maxn=3):
        """ti = nesting depth of try-interrupt, loop = a loop of this function encloses,
        handler = directly inside a handler (abort allowed)."""
        n = draw(st.integers(1, maxn))
        out = []
        for _ in range(n):
            s = stmt(owner, ti, loop, handler, depth)
            out.append(s)
            if s[0] in ("abort", "break", "continue", "return"):
                if draw(st.integers(0, 3)) == 0:
                    out.append(act())  # dead code after the jump
                break
        return out

    def handler_body(owner, ti, loop, depth):
        b = body(owner, ti, loop, True, depth)
        if draw(st.integers(0, 5)) > 0 and b[0][0] not in ("take", "do", "do_for"):
            b.insert(0, act())  # most handlers consume a step (otherwise they tend to stall)
        return b

    def stmt(owner, ti, loop, handler, depth):
        kinds = ["take"] * 5 + ["wait"]
        if owner + 1 < nb:
            kinds += ["do", "do", "do_for", "do_until"]
        if ti < 3 and depth > 0:
            kinds += ["try"] * (5 if ti == 0 else 3)
            if ti > 0:
                kinds += ["looptry", "looptry"]
        if depth > 0:
            kinds += ["if", "for", "for", "while"]
        if ti > 0:
            kinds += ["return"]
            if loop:
                kinds += ["break", "break", "continue", "continue"]
            if handler:
                kinds += ["abort", "abort"]
        elif loop and depth < 2:
            kinds += ["break", "continue"]
        kk = draw(st.sampled_from(kinds))
        if kk == "take":
            return act()
        if kk == "wait":
            return ["wait"]
        if kk in ("do", "do_for", "do_until"):
            names = ["B%d" % draw(st.integers(owner + 1, nb - 1))]
            if kk == "do":
                return ["do", names]
            if kk == "do_for":
                return ["do_for", names, *dur()]
            return ["do_until", names, cond()]
        if kk == "looptry":
            # a statement nested in a block of another one *through a loop*, with a jump out
            # of its handler
            jump = draw(st.sampled_from(["return", "return", "break", "continue", "abort"]))
            inner = ["try", body(owner, ti + 1, True, False, depth - 1, 2),
                     [[cond(), [act(), [jump]]]]]
            if draw(st.booleans()):
                inner[2].append([cond(), handler_body(owner, ti + 1, True, depth - 1)])
            loop_body = [inner] if draw(st.booleans()) else [act(), inner]
            return ["for", draw(st.integers(1, 3)), loop_body] if draw(st.booleans()) else \
                ["while", None, [act(), inner]]
        if kk == "try":
            nh = draw(st.integers(1, 3))
            tb = body(owner, ti + 1, loop, False, depth - 1)
            hs = [[cond(), handler_body(owner, ti + 1, loop, depth - 1)] for _ in range(nh)]
            return ["try", tb, hs]
        if kk == "if":
            return ["if", cond(), body(owner, ti, loop, handler, depth - 1, 2),
                    body(owner, ti, loop, handler, depth - 1, 2) if draw(st.booleans()) else []]
        if kk == "for":
            return ["for", draw(st.integers(1, 3)), body(owner, ti, True, handler, depth - 1)]
        if kk == "while":
            c = cond() if draw(st.integers(0, 2)) == 0 else None
            b = body(owner, ti, True, handler, depth - 1)
            if not any(x[0] in ("take", "wait") for x in b):
                b.insert(0, act())
            return ["while", c, b]
        return [kk]

    def has_yielding(b):
        for s in b:
            if s[0] in ("take", "wait", "do", "do_for", "do_until"):
                return True
            if s[0] == "if" and (has_yielding(s[2]) or has_yielding(s[3])):
                return True
            if s[0] in ("for", "while") and has_yielding(s[2]):
                return True
            if s[0] == "try" and (has_yielding(s[1]) or any(has_yielding(h[1]) for h in s[2])):
                return True
        return False

    if draw(st.integers(0, 3)) == 0:
        return compose_family(draw, atoms, cond, gcond, dur), atoms

    behaviors = []
    for i in range(nb):
        shape = draw(st.integers(0, 4))
        if shape == 4 and i + 1 < nb:
            # guards around plain sub-behaviour invocations (no try-interrupt in between)
            b = []
            for _ in range(draw(st.integers(2, 4))):
                kk = draw(st.sampled_from(["take", "do", "do", "do_for", "wait_for", "do_until"]))
                sub_ = ["B%d" % draw(st.integers(i + 1, nb - 1))]
                b.append(act() if kk == "take" else ["do", sub_] if kk == "do"
                         else ["do_for", sub_, *dur()] if kk == "do_for"
                         else ["wait_for", *dur()] if kk == "wait_for"
                         else ["do_until", sub_, cond()])
        elif shape == 0 or shape == 4:
            b = body(i, 0, False, False, 3)
        elif shape == 1:
            b = [["while", None, body(i, 0, True, False, 3)]]
            if not any(x[0] in ("take", "wait") for x in b[0][2]):
                b[0][2].insert(0, act())
        else:
            nh = draw(st.integers(1, 3))
            t = ["try", body(i, 1, shape == 3, False, 2),
                 [[cond(), handler_body(i, 1, shape == 3, 2)] for _ in range(nh)]]
            b = [["for", draw(st.integers(2, 3)), [act(), t]]] if shape == 3 else [t]
        if i == 0 or draw(st.booleans()):
            b.append(["while", None, [["take", 9]]] if draw(st.booleans()) else act())
        if not has_yielding(b):
            b.append(act())
        pre = [gcond()] if draw(st.integers(0, 3)) == 0 else []
        inv = [gcond()] if draw(st.integers(0, 2)) == 0 or shape == 4 else []
        if inv and draw(st.integers(0, 4)) == 0:
            inv.append(gcond())
        behaviors.append({"name": f"B{i}", "pre": pre, "inv": inv, "body": b})
    setup = [["obj", "a0", "B0"]]
    if draw(st.integers(0, 3)) == 0:
        setup.append(["obj", "a1", "B%d" % draw(st.integers(0, nb - 1))])
    spre, sinv = [], []
    if draw(st.integers(0, 4)) == 0:
        # modular top-level scenario with guards of its own
        if draw(st.booleans()):
            spre.append(gcond())
        sinv.append(gcond())
    prog = {"behaviors": behaviors, "monitors": [],
            "scenarios": [{"name": "Main", "pre": spre, "inv": sinv, "setup": setup,
                           "compose": None}],
            "toplevel": not (spre or sinv)}
    if draw(st.booleans()):
        prog["selfguards"] = True
    return prog, atoms


def compose_family(draw, atoms, cond, gcond, dur):
    """Try-interrupt statements in compose blocks, with sub-scenarios started under their
    blocks; every sub-scenario carries a monitor that logs at every step it is alive, so an
    abandoned sub-scenario that is not stopped is visible."""
    tagc = [0]

    def log():
        tagc[0] += 1
        return ["log", f"c{tagc[0]}"]

    def cbody(owner, ti, loop, handler, depth, maxn=3):
        out = []
        for _ in range(draw(st.integers(1, maxn))):
            s = cstmt(owner, ti, loop, handler, depth)
            out.append(s)
            if s[0] in ("abort", "break", "continue", "return"):
                break
        return out

    def chandler(owner, ti, loop, depth):
        b = cbody(owner, ti, loop, True, depth)
        if draw(st.integers(0, 5)) > 0 and b[0][0] not in ("wait", "do", "do_for"):
            b[:0] = [log(), ["wait"]]
        return b

    def cstmt(owner, ti, loop, handler, depth):
        kinds = ["wait", "wait", "log", "wait_for"]
        if owner < 2:
            kinds += ["do", "do", "do", "do_for", "do_until"]
        if ti < 2 and depth > 0:
            kinds += ["try"] * (5 if ti == 0 else 2)
        if depth > 0:
            kinds += ["if", "for", "while"]
        if ti > 0:
            kinds += ["return"]
            if loop:
                kinds += ["break", "continue"]
            if handler:
                kinds += ["abort", "abort", "abort"]
        kk = draw(st.sampled_from(kinds))
        if kk == "wait":
            return ["wait"]
        if kk == "log":
            return log()
        if kk == "wait_for":
            return ["wait_for", *dur()]
        if kk in ("do", "do_for", "do_until"):
            names = ["S%d" % draw(st.integers(owner + 1, 2))]
            if names[0] == "S1" and draw(st.integers(0, 4)) == 0:
                names.append("S2")
            if kk == "do":
                return ["do", names]
            if kk == "do_for":
                return ["do_for", names, *dur()]
            return ["do_until", names, cond()]
        if kk == "try":
            tb = cbody(owner, ti + 1, loop, False, depth - 1)
            if owner < 2 and not any(x[0].startswith("do") for x in tb):
                tb.insert(draw(st.integers(0, len(tb))), ["do", ["S%d" % (owner + 1)]])
            hs = [[cond(), chandler(owner, ti + 1, loop, depth - 1)]
                  for _ in range(draw(st.integers(1, 3)))]
            return ["try", tb, hs]
        if kk == "if":
            return ["if", cond(), cbody(owner, ti, loop, handler, depth - 1, 2),
                    cbody(owner, ti, loop, handler, depth - 1, 2) if draw(st.booleans()) else []]
        if kk == "for":
            return ["for", draw(st.integers(1, 3)), cbody(owner, ti, True, handler, depth - 1)]
        if kk == "while":
            b = cbody(owner, ti, True, handler, depth - 1)
            if not any(x[0] == "wait" for x in b):
                b.insert(0, ["wait"])
            return ["while", cond() if draw(st.integers(0, 2)) == 0 else None, b]
        return [kk]

    behaviors = [{"name": "B0", "pre": [], "inv": [], "body": [["while", None, [["take", 1]]]]},
                 {"name": "B1", "pre": [], "inv": [], "body": [["take", 2], ["take", 3],
                                                               ["while", None, [["take", 4]]]]}]
    monitors = [{"name": f"M{i}", "body": [["while", None, [["log", f"m{i}"], ["wait"]]]]}
                for i in (1, 2)]
    scenarios = []
    main_comp = cbody(0, 0, False, False, 3)
    if not any(x[0] == "try" for x in main_comp):
        main_comp.append(cstmt(0, 0, False, False, 3) if draw(st.booleans()) else
                         ["try", [["do", ["S1"]]], [[cond(), chandler(0, 1, False, 2)]]])
    main_comp.append(["while", None, [log(), ["wait"]]])
    scenarios.append({"name": "Main", "pre": [], "inv": [gcond()] if draw(st.integers(0, 5)) == 0
                      else [], "setup": [["obj", "a0", "B0"]], "compose": main_comp})
    for i in (1, 2):
        setup = [["monitor", f"M{i}"]]
        if draw(st.booleans()):
            setup.append(["obj", f"a{i}", "B1"])
        if draw(st.integers(0, 2)) == 0:
            setup.append(["term_after", *dur()])
        comp = None
        if draw(st.booleans()):
            comp = cbody(i, 0, False, False, 2) if draw(st.booleans()) else \
                [["for", draw(st.integers(1, 4)), [log(), ["wait"]]]]
            if not any(x[0] in ("wait", "wait_for", "do", "do_for", "do_until", "try", "for",
                                "while", "if") for x in comp):
                comp.append(["wait"])
            comp.append(["wait"])
        pre = [gcond()] if draw(st.integers(0, 5)) == 0 else []
        scenarios.append({"name": f"S{i}", "pre": pre, "inv": [], "setup": setup,
                          "compose": comp})
    return {"behaviors": behaviors, "monitors": monitors, "scenarios": scenarios,
            "toplevel": False}


def trim_nested(body):
    top = [0]

    def scan(stmts, ti, apply):
        for s in stmts:
            k = s[0]
            if k == "try":
                if ti == 0 and not apply:
                    top[0] = max(top[0], len(s[2]))
                if ti > 0 and apply and len(s[2]) > top[0]:
                    del s[2][top[0]:]
                scan(s[1], ti + 1, apply)
                for _, b in s[2]:
                    scan(b, ti + 1, apply)
            elif k == "if":
                scan(s[2], ti, apply)
                scan(s[3], ti, apply)
            elif k in ("for", "while"):
                scan(s[2], ti, apply)

    scan(body, 0, False)
    scan(body, 0, True)


def no_two_level(stmts, depth, in_loop):
    for s in stmts:
        k = s[0]
        if k in ("break", "continue") and not in_loop and depth >= 2:
            s[0] = "return"
        elif k == "if":
            no_two_level(s[2], depth, in_loop)
            no_two_level(s[3], depth, in_loop)
        elif k in ("for", "while"):
            no_two_level(s[2], 0, True)
        elif k == "try":
            d = 1 if in_loop else depth + 1
            for part in [s[1]] + [h[1] for h in s[2]]:
                no_two_level(part, d, False)


@st.composite
def cases(draw):
    prog, atoms = draw(programs())
    steps = draw(st.sampled_from([3, 4, 4, 5]))
    return {"prog": prog, "atoms": atoms, "steps": steps,
            "timestep": draw(st.sampled_from([1, 1, 0.5])),
            "raise": draw(st.booleans()), "seed": draw(st.integers(0, 10 ** 6))}


# ---------------------------------------------------------------------------------------------
# Judge
# ---------------------------------------------------------------------------------------------

CAP = {"quick": 256, "thorough": 2048}
_tier = ["quick"]

NONTRIVIAL = {"handler-preempted-by-handler", "ctl-in-try:break", "ctl-in-try:continue",
              "ctl-in-try:return", "abort", "sub-scenario-abandoned"}

DEFECT_SLUGS = {"ti_inv": "inv-under-try", "ti_flags": "brkflags", "ti_return2": "return2",
                "comp_zombie": "abandoned-sub-scenario-not-stopped",
                "comp_onelist": "sub-scenario-list-clobbered"}
DEFECTS = []
_ORDER = ["comp_zombie", "comp_onelist", "ti_inv", "ti_flags", "ti_return2"]
for _n in (1, 2, 3):
    for _c in itertools.combinations(_ORDER, _n):
        DEFECTS.append(({d: True for d in _c},
                        "defect:" + "+".join(sorted(DEFECT_SLUGS[d] for d in _c))))


def tables_of(case, cap):
    k, L = len(case["atoms"]), case["steps"]
    bits = k * L
    if (1 << bits) <= cap:
        codes = range(1 << bits)
        mode = "all"
    else:
        rng = random.Random(case["seed"])
        codes = [rng.getrandbits(bits) for _ in range(cap)]
        mode = "sample"
    for code in codes:
        yield code, {a: [(code >> (i * L + t)) & 1 for t in range(L)] + [0]
                     for i, a in enumerate(case["atoms"])}
    return mode


def static_features(prog):
    feats = set()

    def walk(stmts, ti):
        for s in stmts:
            k = s[0]
            if k == "try":
                feats.add(f"try-depth{ti + 1}")
                feats.add(f"handlers{len(s[2])}")
                walk(s[1], ti + 1)
                for _, b in s[2]:
                    walk(b, ti + 1)
            elif k == "if":
                walk(s[2], ti)
                walk(s[3], ti)
            elif k in ("for", "while"):
                walk(s[2], ti)
            elif k in ("abort", "break", "continue", "return") and ti:
                feats.add(f"{k}-in-try")
                if k == "return" and ti >= 2:
                    feats.add("return-under-2-try")
            elif k in ("do", "do_for", "do_until") and ti:
                feats.add("do-in-try")

    for sc in prog["scenarios"]:
        if sc.get("compose"):
            n0 = len(feats)
            walk(sc["compose"], 0)
            if any(f.startswith("try-depth") for f in feats):
                feats.add("compose-try")
            del n0
    if any(f == "compose-try" for f in feats):
        feats.discard("do-in-try")
        feats.add("do-scenario-in-try")
    for b in prog["behaviors"]:
        walk(b["body"], 0)
        if b["pre"]:
            feats.add("precondition")
        if b["inv"] and prog.get("selfguards"):
            feats.add("invariant-mentions-self")
        if b["inv"]:
            feats.add("invariant")
        if any(c.startswith("rej:") for c in b["pre"] + b["inv"]):
            feats.add("guard-raises-rejection")
    return feats


def more_handlers_nested(prog):
    """Some nested try-interrupt has more interrupt clauses than every statement at the top
    level of its behaviour."""
    def scan(stmts, ti, acc):
        for s in stmts:
            k = s[0]
            if k == "try":
                acc[min(ti, 1)] = max(acc[min(ti, 1)], len(s[2]))
                scan(s[1], ti + 1, acc)
                for _, b in s[2]:
                    scan(b, ti + 1, acc)
            elif k == "if":
                scan(s[2], ti, acc)
                scan(s[3], ti, acc)
            elif k in ("for", "while"):
                scan(s[2], ti, acc)

    for b in prog["behaviors"]:
        acc = [0, 0]
        scan(b["body"], 0, acc)
        if acc[1] > acc[0]:
            return True
    return False


def judge(case, cap=None):
    from vf import dynsim

    cap = cap or CAP[_tier[0]]
    out = core.Outcome()
    prog = case["prog"]
    sfeats = static_features(prog)
    out.cls(*sorted(sfeats))
    flags, cerr, two = M.compiler_flag_flow(prog)
    if two:
        out.cls("break-through-two-try")
    try:
        src, scenario = c12.compile_prog(prog)
    except Exception as e:
        name = type(e).__name__
        if "no binding for nonlocal" in str(e) and more_handlers_nested(prog):
            sig = f"nested-try:more-clauses-than-enclosing-statement|compile:{name}"
        elif two:
            sig = f"nested-try:break-or-continue-crosses-two-statements|compile:{name}"
        elif cerr:
            sig = f"defect:brkflags|compile:{name}"
        else:
            sig = "compile|" + core.exc_signature(e)
        out.fail(sig, source=M.emit(prog), error=repr(e)[:400])
        return out
    n_initial = sum(1 for x in prog["scenarios"][0]["setup"] if x[0] == "obj")
    L = case["steps"]
    fails = {}
    seen_feats = set()
    njudged = nstall = 0
    poisoned = False
    prev_scene = None
    for code, table in tables_of(case, cap):
        plan = {"table": table, "schedule": [], "maxSteps": L, "timestep": case["timestep"],
                "raise": case["raise"]}
        exps = c12.expected_set(prog, plan)
        if isinstance(exps, str):
            if exps == "stall":
                nstall += 1
            else:
                out.cls(exps.split(" ")[0])
            continue
        if poisoned and "top-guard-at-start" in exps[0]["features"]:
            continue
        p = dynsim.Plan(table, [])
        # every other table re-simulates the scene of the previous one
        obs = dynsim.run(scenario, p, maxSteps=L, timestep=case["timestep"],
                         raiseGuardViolations=case["raise"],
                         scene=prev_scene if njudged % 2 else None)
        prev_scene = obs.pop("scene")
        obs["timestep"] = case["timestep"]
        njudged += 1
        if obs["left_running"]:
            ent = fails.setdefault("toplevel-guard-violated|scenario-object-left-running",
                                   {"count": 0, "first": {"table": table}})
            ent["count"] += 1
            src, scenario = c12.compile_prog(prog)
            poisoned = True
            prev_scene = None
        feats = set().union(*[r["features"] for r in exps])
        if exps[0]["status"] == "guard" and exps[0]["time"] > 0:
            feats.add("guard-violated-late")
        seen_feats |= feats
        if obs["status"] in ("error", "stall"):
            sig = f"{c12.primary(feats)}|{obs['status']}:{obs.get('sig', '')}"
            sym = [obs.get("repr")]
        else:
            syms = [c12.compare(obs, r, n_initial, case["raise"]) for r in exps]
            if any(s is None for s in syms):
                continue
            sig = None
            for defects, title in DEFECTS:
                alt = c12.expected_set(prog, plan, defects=defects, ti_flags=flags)
                if not isinstance(alt, str) and any(
                        c12.compare(obs, r, n_initial, case["raise"]) is None for r in alt):
                    sig = f"{title}|wrong-run"
                    break
            if sig is None:
                sig = f"{c12.primary(feats)}|{syms[0]}"
            sym = syms
        ent = fails.setdefault(sig, {"count": 0})
        ent["count"] += 1
        if "first" not in ent:
            ent["first"] = dict(
                table=table, symptom=sym,
                expected={k2: M.tolist(v) if k2 in ("log", "actions") else repr(v)
                          for k2, v in exps[0].items()
                          if k2 in ("status", "time", "types", "log", "classes")},
                observed={k2: v for k2, v in obs.items()
                          if k2 in ("status", "time", "exc", "log")})
    bump("tables_judged", njudged)
    bump("tables_stalled", nstall)
    for sig, ent in fails.items():
        out.fail(sig, source=src, tables_failing=ent["count"], tables_judged=njudged,
                 **ent["first"])
    out.cls(*["f:" + f for f in sorted(seen_feats)])
    if nstall:
        out.cls("some-tables-stall")
    if njudged == 0:
        out.cls("case:no-judged-table")
    out.nontrivial = bool(seen_feats & NONTRIVIAL) or "guard-violated-late" in seen_feats
    return out


def replay(case):
    return judge(case, cap=CAP["thorough"])


def plan(tier, seed, jobs):
    n = 25 if tier == "quick" else 250
    return [{"seed": seed * 1000 + k, "n": n} for k in range(jobs)]


def run_shard(shard, tier):
    from vf import dynsim

    _tier[0] = tier
    dynsim.selftest()
    M.selftest()
    col = core.Collector(PROP, shard["id"])
    core.hyp_search(cases(), judge, shard["n"], shard["seed"], col,
                    known_sigs=shard.get("known_sigs", ()), case_timeout=120,
                    shrink_s=20 if tier == "quick" else 120,
                    shrink=not os.environ.get("VF_NOSHRINK"))
    for k, v in COUNTS.items():
        col.bump(k, v)
    return col.result()
