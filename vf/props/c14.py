"""C14 — simulations leave scenes, scenarios and global state untouched, even on failure.

A *case* is a replayable JSON list of rule applications `[rule, args]` executed in one
process by `Driver` (the Hypothesis RuleBasedStateMachine below only chooses the rules):

    compile(prog)  generate(seed)  simulate(scene, seed)  fault(scene, seed, site, k, exc)
    recompile()  fresh(scene, seed)

`fault` first makes sure a *control* run of (scene, seed) exists (it doubles as the dry run that
discovers the fault sites and their hit counts), arms exactly one site at its k-th hit with one
of four exception classes, runs the simulation, and then repeats the run without a fault.

Invariants checked after every rule (oracles independent of the implementation's cleanup code:
snapshots taken before, a table of pristine globals, and control runs):
 (i)   the canonical dump of every property of every object of every live scene is unchanged;
 (ii)  the veneer globals are pristine, veneer.isActive() is False, the 3D classes are in place;
 (iii) no behavior / monitor / scenario of a scene is running, no dynamic proxy is left;
 (iv)  a fault-free run with seed s equals the control run with seed s (same process; after
       `recompile` with a freshly compiled scenario; `fresh`: the control equals the one
       computed by a brand-new interpreter process);
 (v)   at every step of every run each overridable property reads the value given by the most
       recently started *running* scenario that overrides it, else its original value
       (reference model in vf.c14_gen.expected_value) -- in particular the old value at the
       first step after the overriding scenario ended.
"""

from __future__ import annotations

import os
import random
import time

from hypothesis import strategies as st

from vf import c14_gen, canon, core

PROP = "C14"
NEEDS_PARSER = True
FLOOR = 0.50
RULE = ("hypothesis.stateful rule-based machines over one process: compile / generate / "
        "simulate / simulate-with-fault / recompile on generated modular programs (1-3 objects "
        "with simulator-updated dynamic properties, 1-3 sub-scenarios with 1-3 override "
        "statements each on object properties and behaviors, nesting, parallel and time-limited "
        "invocation, guards, interrupts, monitors, temporal / static requirements, records, "
        "2D mode, time limits in steps or seconds, a simulator that increments chosen "
        "non-dynamic properties while creating objects, a dynamic property with default None; "
        "the time step and the type reported for that property vary with the run seed).  "
        "Fault plans arm one of the sites discovered by the control run (program "
        "sites requirement, setup, compose, behavior, monitor, guard, interrupt condition, "
        "record; simulator sites create, step, getProperties, applyTo) at a reachable hit count "
        "with RuntimeError / RejectionException / RejectSimulationException / GuardViolation.  "
        "Non-trivial machine = at least one fault fired while an override was active or after a "
        "simulator update (time >= 1); distinct = SHA-1 of the rule list.")
ASSUMPTIONS = [
    "vf.c18_sim.HSimulator is deterministic, keeps its own state and raises only what the plan "
    "injects",
    "which scenarios are running at a step is read from veneer.runningScenarios (C12 judges "
    "when scenarios start and stop; C14 judges what overrides read given that)",
    "most control runs happen in the same process (the first control of a scene precedes every "
    "fault on that scene); the `fresh` rule compares a control with a brand-new interpreter "
    "(quick: about one machine in six; thorough: every machine that reaches the rule)",
    "runs are process independent for these programs (no requirement mentions two random "
    "values, the id-ordering defect of C15 is out of reach)",
]

PRISTINE = {
    "activity": 0, "currentScenario": None, "scenarioStack": [], "scenarios": [],
    "evaluatingRequirement": False, "_globalParameters": {}, "lockedParameters": set(),
    "lockedModel": None, "loadingModel": False, "currentSimulation": None,
    "runningScenarios": [], "currentBehavior": None, "simulatorFactory": None,
    "evaluatingGuard": False, "mode2D": False,
}


TIMESTEPS = [0.5, 1, 0.25]
NONE_VALUES = [3, "s", 2.5]


def seed_all(s):
    import numpy

    random.seed(s)
    numpy.random.seed(s % (2 ** 32))


class Outcome(core.Outcome):
    __slots__ = ("_seen",)

    def __init__(self):
        super().__init__()
        self._seen = set()

    def fail(self, sig, **detail):
        if sig in self._seen:
            return
        self._seen.add(sig)
        super().fail(sig, **detail)


# ----------------------------------------------------------------------------------------------
# observation helpers
# ----------------------------------------------------------------------------------------------

def veneer_state():
    """Differences between the veneer globals and the pristine table (empty = pristine)."""
    import scenic.core.object_types as ot
    import scenic.syntax.veneer as veneer

    bad = {}
    for name, want in PRISTINE.items():
        got = getattr(veneer, name)
        if got != want or type(got) is not type(want):
            bad[name] = type(got).__name__ if not isinstance(got, (int, bool, str, type(None))) \
                else repr(got)
    if veneer.isActive():
        bad["isActive"] = "True"
    orig = veneer._originalConstructibles
    for nm, cls in zip(("Point", "OrientedPoint", "Object"), orig):
        if getattr(veneer, nm) is not cls:
            bad["veneer." + nm] = getattr(veneer, nm).__name__
        if getattr(ot, nm) is not cls:
            bad["object_types." + nm] = getattr(ot, nm).__name__
    return bad


def force_reset(scenes=()):
    """Harness-owned repair after a detected violation, so that later machines of the same
    worker process start from a clean interpreter state."""
    import scenic.core.object_types as ot
    import scenic.syntax.veneer as veneer

    for name, want in PRISTINE.items():
        setattr(veneer, name, type(want)() if isinstance(want, (list, dict, set)) else want)
    veneer.Point, veneer.OrientedPoint, veneer.Object = veneer._originalConstructibles
    ot.Point, ot.OrientedPoint, ot.Object = veneer._originalConstructibles
    for ent in scenes:
        for obj in ent["scene"].objects:
            object.__setattr__(obj, "_dynamicProxy", obj)


def running_things(scene):
    """Names of behaviors / monitors / scenarios of a scene that are still running, and of
    objects that still have a dynamic proxy."""
    out = []
    for i, obj in enumerate(scene.objects):
        if object.__getattribute__(obj, "_dynamicProxy") is not obj:
            out.append(f"proxy:obj{i}")
        b = obj.behavior
        if b is not None and (b._isRunning or b._runningIterator is not None
                              or b._agent is not None):
            out.append(f"behavior:obj{i}")
    ds = scene.dynamicScenario
    if ds._isRunning or ds._runningIterator is not None:
        out.append("scenario:top")
    for m in scene.monitors:
        if m._isRunning:
            out.append("monitor")
    return out


def snapshot(scene):
    """Deep canonical dump of every property of every object, and of the global parameters."""
    return tuple(canon.canon_object(o) for o in scene.objects) + \
        (("params", canon.canon(dict(scene.params), 1)),)


# ----------------------------------------------------------------------------------------------
# the driver: executes rule applications
# ----------------------------------------------------------------------------------------------

class Driver:
    MAX_SCENES = 3

    def __init__(self, tier="quick"):
        self.tier = tier
        self.out = Outcome()
        self.trace = []
        self.dead = False
        self.prog = None
        self.src = None
        self.scenario = None
        self.scenes = []  # {"scene", "snap", "seed", "controls": {seed: canon}, "counts": {}}
        self.compiles = 0
        self.recompiles = 0
        self.freshes = 0
        self.fired = 0
        self.fired_nontrivial = 0
        self.rules = 0

    # -- public --------------------------------------------------------------------------------
    def apply(self, rule, args):
        if self.dead:
            return
        self.trace.append([rule, args])
        self.rules += 1
        try:
            with core.time_limit(180):
                getattr(self, "r_" + rule)(**args)
                self.check_invariants(rule)
        except core.CaseTimeout:
            self.out.inconclusive = True
            self.out.cls("timeout")
            self.dead = True
            force_reset(self.scenes)
        if self.fatal():
            # state may be corrupt from here on: stop this machine and repair the process
            self.dead = True
            force_reset(self.scenes)

    def fatal(self):
        """A failure other than a wrong override value (oracle (v)) was recorded: such
        failures mean corrupted process / scene state, after which nothing can be trusted.
        Wrong override values are confined to the simulation in which they were observed."""
        return any(not sig.startswith("override:") for sig, _ in self.out.failures)

    def finish(self):
        self.out.nontrivial = self.fired_nontrivial > 0
        if self.fired:
            self.out.cls("machine:fault-fired")
        return self.out

    # -- rules ---------------------------------------------------------------------------------
    def _compile(self):
        import scenic

        return scenic.scenarioFromString(self.src, mode2D=self.prog["mode2D"])

    def r_compile(self, prog):
        from vf.c14_lib import PLAN

        self.prog = prog
        self.src = c14_gen.emit(prog)
        PLAN.reset()
        self.compiles += 1
        self.scenario = None
        self.scenes = []
        try:
            self.scenario = self._compile()
        except core.CaseTimeout:
            raise
        except Exception as e:
            # the generator only builds valid programs: a compile error is not this property's
            # business (C10) but must not pass silently
            raise core.HarnessError(f"generated C14 program does not compile: {e!r}\n{self.src}")
        self.out.cls("rule:compile", "mode2D" if prog["mode2D"] else "mode3D")

    def _generate(self, scenario, seed):
        from vf.c14_lib import PLAN

        PLAN.reset()
        seed_all(seed)
        scene, _ = scenario.generate(maxIterations=5)
        return scene

    def r_generate(self, seed):
        scene = self._generate(self.scenario, seed)
        ent = {"scene": scene, "snap": snapshot(scene), "seed": seed, "controls": {},
               "counts": {}}
        if len(self.scenes) >= self.MAX_SCENES:
            self.scenes.pop(0)
        self.scenes.append(ent)
        self.out.cls("rule:generate")

    def _run(self, ent, seed, armed=None):
        """One simulation of a scene.  Returns (kind, canonical result | exception, plan)."""
        from vf.c14_lib import PLAN
        from vf.c18_sim import HSimulator

        PLAN.reset(armed)
        seed_all(1000 + seed)
        obs = []
        # the simulator configuration is a function of the run seed: runs with different
        # seeds use different time steps and report different types for `kind` (the dynamic
        # property whose Scenic default is None) -- each is legal in a fresh process
        simulator = HSimulator(faults=PLAN, observer=lambda sim: obs.append(self._observe(sim)),
                               create_assign={p: 10 for p in self.prog.get("cassign", ())},
                               none_value=NONE_VALUES[seed % len(NONE_VALUES)])
        try:
            sim = simulator.simulate(ent["scene"], maxSteps=40,
                                     timestep=TIMESTEPS[seed % len(TIMESTEPS)])
            res = ("done", canon.canon_result(sim))
        except core.CaseTimeout:
            raise
        except Exception as e:
            res = ("raised", e)
        finally:
            PLAN.enabled = False
        self._judge_observations(obs, armed)
        return res[0], res[1], PLAN

    def _observe(self, sim):
        import scenic.syntax.veneer as veneer

        running = [type(s).__name__ for s in veneer.runningScenarios]
        vals = []
        for obj in sim.objects:
            b = obj.behavior
            vals.append({"foo": obj.foo, "bar": obj.bar, "baz": obj.baz,
                         "behavior": type(b).__name__ if b is not None else None})
        return (sim.currentTime, running, vals)

    def _judge_observations(self, obs, armed):
        """(v): every observed property value equals the reference value."""
        prog = self.prog
        ended = []  # sub-scenarios that stopped, most recent last
        prev = []
        for t, running, vals in obs:
            for n in prev:
                if n not in running and n.startswith("Sub"):
                    ended.append(int(n[3:]))
            prev = running
            if any(running.count(n) > 1 for n in running):
                self.out.cls("unjudged:same-scenario-twice")
                continue
            if len([n for n in running if n.startswith("Sub")]):
                self.out.cls("obs:override-active")
            for i, v in enumerate(vals):
                for prop in c14_gen.PROPS + ["behavior"]:
                    want, owner = c14_gen.expected_value(prog, running, i, prop)
                    got = v[prop]
                    if got == want:
                        continue

                    def sets(k):
                        return any(o == i and p == prop and
                                   (f"Alt{k}" if p == "behavior" else val) == got
                                   for o, specs in prog["subs"][k]["ovr"] for p, val in specs)

                    kind = "behavior" if prop == "behavior" else "property"
                    live = [int(n[3:]) for n in running if n.startswith("Sub")]
                    gone = [k for k in reversed(ended) if sets(k) and k not in live]
                    if gone:
                        # the value of a scenario that has ended is still visible
                        rank = c14_gen.statement_rank(prog, gone[0], i, prop)
                        cell = f"override:{kind}:" + ("first-statement-on-object" if rank == 0
                                                      else "later-statement-on-same-object")
                        sym = "not-reverted-after-scenario-ended"
                    elif any(sets(k) for k in live):
                        cell, sym = f"override:{kind}", "shadowed-while-running"
                    else:
                        cell, sym = f"override:{kind}", "unexpected-value"
                    self.out.fail(f"{cell}|{sym}", source=self.src, time=t, running=running,
                                  object=i, prop=prop, expected=want, observed=got,
                                  ended=ended[-4:], fault=list(armed) if armed else None)

    def _control(self, ent, seed):
        """Control run of (scene, seed): canonical result + hit counts of every site."""
        if seed in ent["controls"]:
            return ent["controls"][seed]
        kind, res, plan = self._run(ent, seed)
        if kind == "raised":
            self.out.fail("control-run|" + core.exc_signature(res), source=self.src,
                          error=repr(res)[:300])
            ent["controls"][seed] = None
            return None
        ent["controls"][seed] = (res, dict(plan.counts))
        return ent["controls"][seed]

    def r_simulate(self, scene, seed):
        ent = self.scenes[scene % len(self.scenes)]
        had = seed in ent["controls"]
        ctl = self._control(ent, seed)
        self.out.cls("rule:simulate")
        if ctl is None or not had:
            return
        kind, res, _ = self._run(ent, seed)
        self._compare(kind, res, ctl, "rerun")

    def _compare(self, kind, res, ctl, where):
        if kind == "raised":
            self.out.fail(f"{where}|" + core.exc_signature(res), source=self.src,
                          error=repr(res)[:300])
        elif res != ctl[0]:
            d = canon.diff(ctl[0], res)
            part = sorted({p.split("/")[1] for p, _, _ in d if p.count("/") >= 1})
            self.out.fail(f"{where}|" + "+".join(part or ["result"]) + "-differ",
                          source=self.src, diff=d[:3])

    def r_fault(self, scene, seed, site, k, exc):
        from vf.c14_lib import EXCEPTIONS, InjectedError

        ent = self.scenes[scene % len(self.scenes)]
        ctl = self._control(ent, seed)  # dry run: discovers sites and hit counts
        if ctl is None:
            return
        counts = ctl[1]
        sites = sorted(s for s, n in counts.items() if n > 0)
        if not sites:
            raise core.HarnessError("no fault site reached by the control run")
        s = sites[site % len(sites)]
        kk = 1 + k % counts[s]
        e = EXCEPTIONS[exc % len(EXCEPTIONS)]
        kind, res, plan = self._run(ent, seed, armed=(s, kk, e))
        sitecls = s.rstrip("0123456789")
        self.out.cls("rule:fault", "site:" + sitecls, "exc:" + e)
        if plan.fired is None:
            # same scene, same seed, same code path up to the armed hit: must be reachable
            self.out.fail("fault-run|armed-hit-not-reached", source=self.src, site=s, k=kk,
                          counts=counts, got=dict(plan.counts))
            return
        self.fired += 1
        f = plan.fired
        active = [n for n in f["running"] if n.startswith("Sub")]
        if active or (f["time"] or 0) >= 1:
            self.fired_nontrivial += 1
            self.out.cls("fault:nontrivial")
        if active:
            self.out.cls("fault:override-active")
        if kind == "raised":
            self.out.cls("ends:raises-" + type(res).__name__)
            if e != "RuntimeError" or not isinstance(res, InjectedError):
                # how a failing run is reported is not part of this property; only classify
                self.out.cls("ends:other-exception:" + type(res).__name__)
        else:
            self.out.cls("ends:" + ("rejected" if res == ("rejected",) else "completed"))
        # invariants (i)-(iii) right after the failing run, then (iv)
        self.check_invariants("fault:" + sitecls + ":" + e)
        if self.fatal():
            return
        kind2, res2, _ = self._run(ent, seed)
        self._compare(kind2, res2, ctl, "after-fault:" + sitecls)

    def r_recompile(self):
        self.recompiles += 1
        self.out.cls("rule:recompile")
        try:
            fresh = self._compile()
        except core.CaseTimeout:
            raise
        except Exception as e:
            self.out.fail("recompile|" + core.exc_signature(e), source=self.src,
                          error=repr(e)[:300])
            return
        new = []
        for ent in self.scenes:
            try:
                scene = self._generate(fresh, ent["seed"])
            except core.CaseTimeout:
                raise
            except Exception as e:
                self.out.fail("regenerate|" + core.exc_signature(e), source=self.src,
                              error=repr(e)[:300])
                return
            snap = snapshot(scene)
            if snap != ent["snap"]:
                self.out.fail("regenerate|scene-differs", source=self.src,
                              diff=canon.diff(ent["snap"], snap)[:3])
                return
            ne = {"scene": scene, "snap": snap, "seed": ent["seed"], "controls": {},
                  "counts": {}}
            # the controls are re-run in the *reverse* of their original order: what a run
            # returns must not depend on which runs the scenario has seen before
            for seed, ctl in reversed(list(ent["controls"].items())):
                if ctl is None:
                    continue
                kind, res, _ = self._run(ne, seed)
                self._compare(kind, res, ctl, "after-recompile")
                ne["controls"][seed] = ctl
            new.append(ne)
        self.scenario = fresh
        self.scenes = new

    def r_fresh(self, scene, seed):
        """(iv), strongest form: the control of (scene, seed) computed in this long-lived
        process equals the one computed by a brand-new interpreter."""
        import hashlib
        import json
        import subprocess
        import sys

        ent = self.scenes[scene % len(self.scenes)]
        ctl = self._control(ent, seed)
        self.freshes += 1
        self.out.cls("rule:fresh")
        if ctl is None:
            return
        job = json.dumps({"prog": self.prog, "scene_seed": ent["seed"], "run_seed": seed})
        r = subprocess.run([sys.executable, "-m", "vf.c14_fresh"], input=job, text=True,
                           capture_output=True, timeout=300, cwd=core.VERIF)
        if r.returncode != 0:
            raise core.HarnessError("fresh-process control crashed:\n" + r.stderr[-1500:])
        got = json.loads(r.stdout)
        if got["failures"]:
            # the same (known) override failures may be seen there too; nothing else may
            if any(not f.startswith("override:") for f in got["failures"]):
                raise core.HarnessError(f"fresh-process control failed: {got['failures']}")
        if got["scene"] != hashlib.sha1(repr(ent["snap"]).encode()).hexdigest():
            self.out.fail("fresh-process|scene-differs", source=self.src)
        elif got["digest"] != hashlib.sha1(repr(ctl[0]).encode()).hexdigest():
            self.out.fail("fresh-process|control-differs", source=self.src)

    # -- invariants ----------------------------------------------------------------------------
    def check_invariants(self, after):
        where = after.split(":")[0]
        bad = veneer_state()
        if bad:
            self.out.fail(f"globals:{'+'.join(sorted(bad))}|not-pristine-after-{where}",
                          source=self.src, state=bad)
        for j, ent in enumerate(self.scenes):
            run = running_things(ent["scene"])
            if run:
                kinds = sorted({r.split(":")[0] for r in run})
                self.out.fail(f"running:{'+'.join(kinds)}|left-after-{where}", source=self.src,
                              things=run)
                continue
            snap = snapshot(ent["scene"])
            if snap != ent["snap"]:
                d = canon.diff(ent["snap"], snap)
                props = sorted({p.split("/")[3] for p, _, _ in d if p.count("/") >= 3})
                over = set(c14_gen.PROPS + ["behavior"])
                cell = "overridable-property" if props and set(props) <= over else \
                    ("+".join(props) or "object")
                self.out.fail(f"scene:{cell}|changed-after-{where}", source=self.src,
                              props=props, after=after, diff=d[:3])


def run_case(case, tier="quick"):
    d = Driver(tier)
    for rule, args in case:
        d.apply(rule, args)
    return d.finish()


def replay(case):
    setup_process()
    return run_case(case)


# ----------------------------------------------------------------------------------------------
# Hypothesis machine
# ----------------------------------------------------------------------------------------------

def make_machine(tier, on_finish, stop_at=None):
    from hypothesis.stateful import (RuleBasedStateMachine, initialize, precondition, rule)

    class Machine(RuleBasedStateMachine):
        def __init__(self):
            super().__init__()
            self.d = Driver(tier)
            self.skip = stop_at is not None and time.time() > stop_at[0]

        def _do(self, name, args):
            if self.skip:
                return
            self.d.apply(name, args)

        @initialize(prog=c14_gen.programs(), seed=st.integers(0, 3), rseed=st.integers(0, 2),
                    site=st.integers(0, 40), k=st.integers(0, 12), exc=st.integers(0, 3))
        def start(self, prog, seed, rseed, site, k, exc):
            self._do("compile", {"prog": prog})
            self._do("generate", {"seed": seed})
            self._do("fault", {"scene": 0, "seed": rseed, "site": site, "k": k, "exc": exc})
            self._do("simulate", {"scene": 0, "seed": (rseed + 1) % 3})

        @precondition(lambda self: self.d.compiles < 2 and self.d.rules > 6)
        @rule(prog=c14_gen.programs(), seed=st.integers(0, 3))
        def compile(self, prog, seed):
            self._do("compile", {"prog": prog})
            self._do("generate", {"seed": seed})

        @precondition(lambda self: self.d.scenario is not None)
        @rule(seed=st.integers(0, 3))
        def generate(self, seed):
            self._do("generate", {"seed": seed})

        @precondition(lambda self: self.d.scenes)
        @rule(scene=st.integers(0, 2), seed=st.integers(0, 2))
        def simulate(self, scene, seed):
            self._do("simulate", {"scene": scene, "seed": seed})

        @precondition(lambda self: self.d.scenes)
        @rule(scene=st.integers(0, 2), seed=st.integers(0, 2), site=st.integers(0, 40),
              k=st.integers(0, 12), exc=st.integers(0, 3))
        def fault(self, scene, seed, site, k, exc):
            self._do("fault", {"scene": scene, "seed": seed, "site": site, "k": k, "exc": exc})

        @precondition(lambda self: self.d.scenes)
        @rule(scene=st.integers(0, 2), seed=st.integers(0, 2), site=st.integers(0, 40),
              k=st.integers(0, 12), exc=st.integers(0, 3))
        def fault2(self, scene, seed, site, k, exc):
            self._do("fault", {"scene": scene, "seed": seed, "site": site, "k": k, "exc": exc})

        @precondition(lambda self: self.d.scenes and self.d.recompiles < 1
                      and self.d.rules > 4)
        @rule()
        def recompile(self):
            self._do("recompile", {})

        @precondition(lambda self: self.d.scenes and self.d.freshes < 1 and self.d.fired > 0)
        @rule(scene=st.integers(0, 2), seed=st.integers(0, 2), go=st.integers(0, 5))
        def fresh(self, scene, seed, go):
            if tier == "quick" and go != 0:
                return  # a new interpreter costs seconds: about one machine in six
            self._do("fresh", {"scene": scene, "seed": seed})

        def teardown(self):
            if not self.skip:
                on_finish(self.d)

    return Machine


def search(col, n, steps, seed, tier, known_sigs=(), shrink_s=30):
    import fnmatch

    import hypothesis
    from hypothesis import HealthCheck, Phase, settings
    from hypothesis.stateful import run_state_machine_as_test

    def on_finish(d):
        out = d.finish()
        if d.trace:
            col.add(d.trace, out)

    from hypothesis import Verbosity
    from hypothesis.reporting import with_reporter

    M = hypothesis.seed(seed)(make_machine(tier, on_finish))
    with with_reporter(lambda *a, **k: None):
        run_state_machine_as_test(M, settings=settings(
            max_examples=n, stateful_step_count=steps, database=None, deadline=None,
            phases=[Phase.generate], report_multiple_bugs=False, verbosity=Verbosity.quiet,
            suppress_health_check=list(HealthCheck)))

    # shrink the first witness of every new signature: a second pass whose machines raise on
    # exactly that signature (Hypothesis minimises the rule list)
    if shrink_s <= 0:
        return
    for sig in list(col.failures):
        if any(fnmatch.fnmatchcase(sig, k) for k in known_sigs):
            continue
        first = col.failures[sig]["examples"][0]["case"]
        best = {}
        stop_at = [time.time() + shrink_s]

        class Found(Exception):
            pass

        def on_finish2(d, sig=sig, best=best):
            out = d.finish()
            for s, detail in out.failures:
                if s == sig:
                    best["case"], best["detail"] = list(d.trace), detail
                    raise Found()

        M2 = hypothesis.seed(seed)(make_machine(tier, on_finish2, stop_at))
        try:
            with with_reporter(lambda *a, **k: None):
                run_state_machine_as_test(M2, settings=settings(
                    max_examples=max(2 * n, 20), stateful_step_count=steps, database=None,
                    deadline=None, phases=[Phase.generate, Phase.shrink],
                    report_multiple_bugs=False, verbosity=Verbosity.quiet,
                    suppress_health_check=list(HealthCheck)))
        except Found:
            pass
        except Exception:
            col.bump("shrink_errors")
        if best.get("case") is not None and core.digest(best["case"]) != core.digest(first):
            col.add_shrunk(sig, best["case"], best["detail"])


# ----------------------------------------------------------------------------------------------
# runner interface
# ----------------------------------------------------------------------------------------------

_READY = False


def setup_process():
    """Start-up self-checks; also disables Scenic's stuck-behavior alarm, which would cancel
    the harness' own SIGALRM based time limit."""
    global _READY
    if _READY:
        return
    import scenic.core.dynamics as dynamics

    dynamics.stuckBehaviorWarningTimeout = 0
    try:
        canon.selftest()
    except AssertionError as e:
        raise core.HarnessError(f"vf.canon self-test failed: {e!r}")
    if veneer_state():
        raise core.HarnessError(f"veneer not pristine at start-up: {veneer_state()}")
    # reference model of oracle (v) on a hand-computed example
    prog = {"objs": [{"beh": "Base"}, {"beh": None}],
            "subs": [{"ovr": [[0, [["foo", 101]]], [0, [["bar", 112]]]], "compose": None},
                     {"ovr": [[0, [["foo", 201]]], [1, [["behavior", 210]]]], "compose": None}]}
    ev = c14_gen.expected_value
    ok = (ev(prog, ["Main"], 0, "foo") == (1, None)
          and ev(prog, ["Main", "Sub0"], 0, "foo") == (101, 0)
          and ev(prog, ["Main", "Sub0", "Sub1"], 0, "foo") == (201, 1)
          and ev(prog, ["Main", "Sub0", "Sub1"], 0, "bar") == (112, 0)
          and ev(dict(prog, cassign=["baz"]), ["Main", "Sub0"], 1, "baz") == (13, None)
          and ev(prog, ["Main", "Sub1"], 1, "behavior") == ("Alt1", 1)
          and ev(prog, ["Main"], 1, "behavior") == (None, None)
          and c14_gen.statement_rank(prog, 0, 0, "bar") == 1
          and c14_gen.statement_rank(prog, 0, 0, "foo") == 0)
    if not ok:
        raise core.HarnessError("override reference model self-check failed")
    # the injected-fault machinery really fires and the simulator really reports its sites
    case = [["compile", {"prog": {
        "mode2D": False, "objs": [{"beh": "Base"}],
        "subs": [{"ovr": [[0, [["foo", 100]]]], "life": 2, "compose": None, "fsetup": True,
                  "fcompose": False}],
        "main": [["wait"], ["do", [0]]], "pre": True, "inv": False, "intr": True, "mon": True,
        "reqa": True, "sreq": True, "rec": True, "term": 6, "termsec": False,
        "cassign": ["foo"]}}],
        ["generate", {"seed": 0}], ["fault", {"scene": 0, "seed": 0, "site": 0, "k": 0,
                                                "exc": 0}]]
    d = Driver()
    for r, a in case:
        d.apply(r, a)
    ctl = d.scenes[0]["controls"].get(0) if d.scenes else None
    need = {"applyTo", "beh", "compose", "create", "g_pre", "getProperties", "int", "mon",
            "rec", "req", "setup0", "step"}
    if ctl is None or not need <= set(ctl[1]) or d.fired != 1 or d.out.failures:
        raise core.HarnessError(f"fault machinery self-check failed: {ctl and sorted(ctl[1])} "
                                f"fired={d.fired} failures={d.out.failures}")
    _READY = True


def plan(tier, seed, jobs):
    n, steps = (9, 22) if tier == "quick" else (150, 30)
    return [{"seed": seed * 1000 + k, "n": n, "steps": steps} for k in range(jobs)]


def run_shard(shard, tier):
    setup_process()
    col = core.Collector(PROP, shard["id"])
    shrink_s = float(os.environ.get("VERIF_SHRINK_S", 25 if tier == "quick" else 120))
    search(col, shard["n"], shard["steps"], shard["seed"], tier,
           known_sigs=shard.get("known_sigs", ()), shrink_s=shrink_s)
    return col.result()
