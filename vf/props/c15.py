"""C15 — same program, options and seed give identical scenes and runs, every time.

Differential across fresh interpreter processes: a batch of generated programs is compiled,
sampled (with a history of earlier scenes) and simulated in N children that differ in
PYTHONHASHSEED, heap layout, import order and the timing sequence seen by the requirement
checker; all canonical digests must be identical.
"""

from __future__ import annotations

import json
import os
import shutil
import subprocess
import sys
import tempfile

from hypothesis import strategies as st

from vf import core

PROP = "C15"
NEEDS_PARSER = True
FLOOR = 0.40
RULE = ("Hypothesis-generated static+dynamic programs biased towards random values referenced only "
        "from requirements / behaviors / monitors, closures over several names, soft requirements, "
        "mesh-shaped objects with visibility, history of 1-4 scenes; each program run in N fresh "
        "interpreters (PYTHONHASHSEED 0/1/random, junk heap allocation, import order, generated "
        "perf_counter jitter) and all digests compared.  Non-trivial = at least 2 random values "
        "reachable only through a requirement/behavior/monitor, or at least 3 requirements; distinct = "
        "SHA-1 of the program IR.")
ASSUMPTIONS = [
    "address-space layouts are sampled (N children), not covered",
    "the simulator is scenic.core.simulators.DummySimulator",
    "timing jitter is injected by replacing the `time` module object seen by "
    "scenic.core.sample_checking",
]

SHAPES = ["", ", with shape SpheroidShape()", ", with shape ConeShape()",
          ", with shape CylinderShape()"]


# ------------------------------------------------------------------------------------------
# generator
# ------------------------------------------------------------------------------------------

@st.composite
def programs(draw):
    nleaves = draw(st.integers(2, 7))
    leaves = []
    # behaviour-heavy programs: several module-level random values referenced only from the
    # bodies of behaviours / monitors (sampled as dependencies of the behaviour namespaces)
    heavy = draw(st.integers(0, 3)) == 0
    for i in range(nleaves):
        kind = draw(st.sampled_from(["range", "range", "normal", "uniform", "drange", "dep"]))
        lo = draw(st.integers(-5, 5))
        w = draw(st.integers(1, 6))
        usage = draw(st.sampled_from(["beh", "beh", "beh", "mon", "mon", "req", "param"] if heavy else
                                     ["req", "req", "req", "param", "beh", "mon", "obj"]))
        leaves.append({"kind": kind if i else "range", "lo": lo, "w": w, "usage": usage})
    nreq = draw(st.integers(0, 4))
    reqs = []
    req_leaves = [i for i, l in enumerate(leaves) if l["usage"] == "req"]
    for _ in range(nreq):
        pool = req_leaves or list(range(nleaves))
        k = draw(st.integers(1, min(4, len(pool))))
        names = draw(st.permutations(pool))[:k]
        reqs.append({"names": list(names), "soft": draw(st.sampled_from([None, None, 0.7, 0.3])),
                     "slack": draw(st.integers(0, 3)),
                     "closure": draw(st.booleans())})
    # make sure requirement-only leaves are actually referenced by some requirement
    unused = [i for i in req_leaves if not any(i in r["names"] for r in reqs)]
    if unused:
        reqs.append({"names": unused[:4], "soft": None, "slack": 0, "closure": False})
    nobj = draw(st.integers(0, 3))
    objs = [{"shape": draw(st.integers(0, len(SHAPES) - 1)),
             "visible": draw(st.booleans()),
             "spread": draw(st.integers(2, 12))} for _ in range(nobj)]
    dyn = draw(st.booleans()) or heavy
    ring = draw(st.integers(0, 3)) == 0
    return {
        "ring": ring,
        "modular": draw(st.integers(0, 3)) == 0,
        "voxel": draw(st.integers(0, 3)) == 0,
        "leaves": leaves, "reqs": reqs, "objs": objs, "dynamic": dyn,
        "mode2D": draw(st.sampled_from([False, False, True])),
        "seed": draw(st.integers(0, 10**6)),
        "history": draw(st.integers(1, 4)),
        "maxSteps": draw(st.integers(1, 4)),
    }


def leaf_src(i, l, leaves):
    lo, hi = l["lo"], l["lo"] + l["w"]
    k = l["kind"]
    if k == "range":
        return f"Range({lo}, {hi})"
    if k == "normal":
        return f"Normal({lo}, {l['w']})"
    if k == "uniform":
        return f"Uniform({lo}, {lo + 1}, {hi})"
    if k == "drange":
        return f"DiscreteRange({lo}, {hi})"
    if k == "dep":
        return f"Range({lo}, {hi} + abs(x{i - 1}))"
    raise ValueError(k)


RING = """import trimesh
ring = trimesh.creation.annulus(r_min=4, r_max=9, height=3)
workspace = Workspace(MeshVolumeRegion(mesh=ring, dimensions=(18, 18, 3)))
"""


def emit(p):
    L = []
    ring = p.get("ring") and not p["mode2D"]
    if ring:
        # non-convex mesh container: its containment check draws points with the global numpy
        # generator, and positions `in` it are sampled with it too
        L.append(RING)
    leaves = p["leaves"]
    for i, l in enumerate(leaves):
        if p.get("modular") and l["usage"] in ("beh", "mon"):
            # behaviours are defined at top level and cannot see the locals of a setup block:
            # the values they use stay module-level (marked, see the split below)
            src = leaf_src(i, dict(l, kind="range") if l["kind"] == "dep" else l, leaves)
            L.append(f"import_free_global = 0; x{i} = {src}")
        else:
            L.append(f"x{i} = {leaf_src(i, l, leaves)}")
    pnames = [f"x{i}" for i, l in enumerate(leaves) if l["usage"] == "param"]
    for j, n in enumerate(pnames):
        L.append(f"param p{j} = {n}")
    onames = [f"x{i}" for i, l in enumerate(leaves) if l["usage"] == "obj"]
    foo = " + ".join(onames) if onames else "0"
    egopos = "in workspace" if ring else "at (Range(-1, 1), Range(-1, 1))"
    L.append(f"ego = new Object {egopos}, with foo {foo}, "
             f"with requireVisible False" + (", with behavior B()" if p["dynamic"] else ""))
    for j, o in enumerate(p["objs"]):
        s = o["spread"]
        vis = " visible from ego," if o["visible"] else ""
        shape = "" if p["mode2D"] else SHAPES[o["shape"]]  # 2D mode only allows boxes
        where = "in workspace" if ring else f"at ({3 * (j + 1)} + Range(0, {s}), Range(-{s}, {s}))"
        L.append(f"o{j} = new Object{vis} {where}, with requireVisible False{shape}")
    if p.get("voxel") and not p["mode2D"]:
        # the sampler of a VoxelRegion mixes Python's and numpy's generators
        L.append("vox = BoxRegion(dimensions=(4, 4, 4), position=(40, 0, 2)).voxelized(pitch=0.5)")
        L.append("v0 = new Object in vox, with allowCollisions True, with requireVisible False, "
                 "with regionContainedIn everywhere, with width 0.1, with length 0.1, with height 0.1")
    for j, r in enumerate(p["reqs"]):
        terms = " + ".join(f"x{i}" for i in r["names"])
        bound = sum(leaves[i]["lo"] for i in r["names"]) + r["slack"]
        soft = f"[{r['soft']}]" if r["soft"] is not None else ""
        if r["closure"] and not p.get("modular"):
            L.append(f"def pred{j}():\n    return {terms} >= {bound}")
            L.append(f"require{soft} pred{j}()")
        else:
            L.append(f"require{soft} {terms} >= {bound}")
    if p["dynamic"]:
        bnames = [f"x{i}" for i, l in enumerate(leaves) if l["usage"] == "beh"]
        mnames = [f"x{i}" for i, l in enumerate(leaves) if l["usage"] == "mon"]
        bsum = " + ".join(bnames) if bnames else "0"
        msum = " + ".join(mnames) if mnames else "0"
        L.insert(0, f"""behavior B():
    while True:
        take Range(0, 1) + ({bsum})
        take Uniform(1, 2, 3)
monitor M():
    while True:
        if ({msum}) > 1000:
            terminate
        wait
""")
        L.append("require monitor M()")
        L.append(f"record ({msum}) as msum")
    if p.get("modular"):
        # the same statements as the setup block of a modular scenario: random values become
        # scenario locals (snapshotted for requirements); definitions stay at top level
        head, body = [], []
        for item in L:
            if item.startswith("import_free_global = 0; "):
                head.insert(0, item.split("; ", 1)[1])
            elif item.startswith(("behavior ", "monitor ", "import ", "def ")):
                head.append(item)
            elif item.startswith("param "):
                continue  # params are top-level only; the value stays reachable through foo
            else:
                body.append(item)
        text = "\n".join(head) + "\nscenario Main():\n    setup:\n"
        for item in body:
            for line in item.split("\n"):
                text += "        " + line + "\n"
        return text
    return "\n".join(L) + "\n"


def features(p):
    f = []
    uses = [l["usage"] for l in p["leaves"]]
    hidden = sum(u in ("req", "beh", "mon") for u in uses)
    f.append(f"hidden-leaves:{min(hidden, 4)}")
    if sum(u == "req" for u in uses) >= 2:
        f.append("req-only>=2")
    if p["dynamic"] and sum(u in ("beh", "mon") for u in uses) >= 2:
        f.append("behaviour-only>=2")
    if any(r["soft"] is not None for r in p["reqs"]):
        f.append("soft")
    if any(r["closure"] for r in p["reqs"]):
        f.append("closure")
    if any(o["visible"] for o in p["objs"]):
        f.append("visible-from")
    if any(o["shape"] for o in p["objs"]) and not p["mode2D"]:
        f.append("mesh-shape")
    if p["dynamic"]:
        f.append("dynamic")
    if p["mode2D"]:
        f.append("mode2D")
    if p.get("ring") and not p["mode2D"]:
        f.append("nonconvex-mesh-workspace")
    if p.get("modular"):
        f.append("modular-setup-locals")
    if p.get("voxel") and not p["mode2D"]:
        f.append("voxel-region-sampler")
    f.append(f"history:{p['history']}")
    return f


def nontrivial(p):
    uses = [l["usage"] for l in p["leaves"]]
    hidden = sum(u == "req" for u in uses) + (
        sum(u in ("beh", "mon") for u in uses) if p["dynamic"] else 0)
    return hidden >= 2 or len(p["reqs"]) >= 3


# ------------------------------------------------------------------------------------------
# children
# ------------------------------------------------------------------------------------------

PREIMPORTS = [[], ["decimal", "xml.dom.minidom"], ["sqlite3", "email.mime.text", "csv"],
              ["unittest", "difflib", "html.parser", "wave"]]


def variants(n, seed):
    out = []
    for k in range(n):
        out.append({
            "hashseed": ["0", "1", "random", str(1000 + seed + k)][k % 4] if k else "0",
            "junk": 0 if k == 0 else 5000 * k + 17 * (seed % 13),
            "preimport": PREIMPORTS[k % len(PREIMPORTS)],
            "jitter": None if k == 0 else seed * 31 + k,
        })
    return out


def run_children(batch, nchildren, seed, workdir):
    """Returns a list (one per child) of lists of records."""
    bpath = os.path.join(workdir, "batch.json")
    with open(bpath, "w") as f:
        json.dump(batch, f)
    procs = []
    for k, var in enumerate(variants(nchildren, seed)):
        env = dict(os.environ)
        env["PYTHONHASHSEED"] = var["hashseed"]
        env["PYTHONPATH"] = core.VERIF + os.pathsep + env.get("PYTHONPATH", "")
        opath = os.path.join(workdir, f"out{k}.json")
        procs.append((opath, subprocess.Popen(
            [sys.executable, "-m", "vf.c15_child", bpath, opath, json.dumps(var)],
            env=env, cwd=core.VERIF, stdout=subprocess.DEVNULL, stderr=subprocess.PIPE)))
    outs = []
    for opath, pr in procs:
        _, err = pr.communicate(timeout=3600)
        if pr.returncode != 0 or not os.path.exists(opath):
            raise core.HarnessError(f"C15 child failed rc={pr.returncode}: {err.decode()[-1500:]}")
        outs.append(json.load(open(opath)))
    return outs


FIELDS = ["exception", "scenes", "iterations", "rng_py", "rng_np", "sim", "rng_py_after_sim"]


def compare(records):
    """records: one per child for the same program -> (field, detail) of first difference."""
    base = records[0]
    for k, rec in enumerate(records[1:], 1):
        for fld in FIELDS:
            if base.get(fld) != rec.get(fld):
                return fld, {"child": k, "base": base.get(fld), "other": rec.get(fld)}
    return None, None


def to_batch(cases):
    return [{"source": emit(p), "mode2D": p["mode2D"], "seed": p["seed"],
             "history": p["history"], "maxIterations": 300, "dynamic": p["dynamic"],
             "maxSteps": p["maxSteps"]} for p in cases]


def judge_batch(cases, nchildren, seed):
    workdir = tempfile.mkdtemp(prefix="vf-c15-", dir="/var/tmp")
    try:
        outs = run_children(to_batch(cases), nchildren, seed, workdir)
    finally:
        shutil.rmtree(workdir, ignore_errors=True)
    results = []
    for i, p in enumerate(cases):
        recs = [o[i] for o in outs]
        out = core.Outcome(nontrivial=nontrivial(p), classes=features(p))
        if "exception" in recs[0]:
            out.cls("exception:" + recs[0]["exception"].split(":")[0])
            out.nontrivial = False
        elif recs[0]["scenes"] and recs[0]["scenes"][-1] == "REJECTED":
            out.cls("rejected-maxIterations")
        if recs[0].get("iterations") and max(recs[0]["iterations"]) > 1:
            out.cls("some-rejection")
        fld, detail = compare(recs)
        if fld is not None:
            out.fail(f"nondeterminism|{fld}", source=emit(p), **detail)
        results.append(out)
    return results


def shrink(case, sig, nchildren, seed, rounds=12):
    """Greedy one-element-removal reduction, one batch of children per round."""
    cur = case
    for _ in range(rounds):
        cands = []
        for key in ("reqs", "objs"):
            for i in range(len(cur[key])):
                c = json.loads(json.dumps(cur))
                del c[key][i]
                cands.append(c)
        for i in range(len(cur["leaves"]) - 1, 0, -1):
            if any(i in r["names"] for r in cur["reqs"]) or \
                    (i + 1 < len(cur["leaves"]) and cur["leaves"][i + 1]["kind"] == "dep"):
                continue
            if i != len(cur["leaves"]) - 1:
                continue  # names are positional: only the last leaf can be dropped safely
            c = json.loads(json.dumps(cur))
            del c["leaves"][i]
            cands.append(c)
        for r_i, r in enumerate(cur["reqs"]):
            if len(r["names"]) > 1:
                c = json.loads(json.dumps(cur))
                c["reqs"][r_i]["names"] = r["names"][:-1]
                cands.append(c)
        for key, val in (("dynamic", False), ("history", 1), ("mode2D", False)):
            if cur[key] != val:
                c = json.loads(json.dumps(cur))
                c[key] = val
                cands.append(c)
        if not cands:
            break
        res = judge_batch(cands, nchildren, seed)
        nxt = None
        for c, o in zip(cands, res):
            if any(s == sig for s, _ in o.failures):
                nxt = (c, o)
                break
        if nxt is None:
            break
        cur = nxt[0]
    return cur


def collect_cases(n, seed):
    import hypothesis
    from hypothesis import HealthCheck, Phase, given, settings

    cases = []

    @hypothesis.seed(seed)
    @settings(max_examples=n, database=None, deadline=None, phases=[Phase.generate],
              suppress_health_check=list(HealthCheck))
    @given(programs())
    def grab(p):
        cases.append(p)

    grab()
    return cases


def plan(tier, seed, jobs):
    if tier == "quick":
        # 4 shards x 4 children = 16 processes
        return [{"seed": seed * 1000 + k, "n": 60, "children": 4} for k in range(max(1, jobs // 4))]
    return [{"seed": seed * 1000 + k, "n": 900, "children": 8} for k in range(max(1, jobs // 8))]


def run_shard(shard, tier):
    col = core.Collector(PROP, shard["id"])
    cases = collect_cases(shard["n"], shard["seed"])
    seen = set()
    uniq = []
    for c in cases:
        d = core.digest(c)
        if d not in seen:
            seen.add(d)
            uniq.append(c)
    chunk = 150
    firsts = {}
    for i in range(0, len(uniq), chunk):
        part = uniq[i:i + chunk]
        for c, o in zip(part, judge_batch(part, shard["children"], shard["seed"])):
            col.add(c, o)
            for s, _ in o.failures:
                firsts.setdefault(s, c)
    import fnmatch

    for sig, c in firsts.items():
        if any(fnmatch.fnmatchcase(sig, k) for k in shard.get("known_sigs", ())):
            continue
        small = shrink(c, sig, shard["children"], shard["seed"],
                       rounds=5 if tier == "quick" else 15)
        if core.digest(small) != core.digest(c):
            o = judge_batch([small], shard["children"], shard["seed"])[0]
            det = next((d for s, d in o.failures if s == sig), None)
            if det is not None:
                col.add_shrunk(sig, small, det)
    return col.result()


def replay(case):
    return judge_batch([case], 6, 1)[0]
