"""C16 — region operations obey set semantics in full 3D.

Every ordered pair of region kinds, random shapes / poses / heights.  Membership, distance,
projection, bounding boxes, sizes and containment answers of the operands and of
`intersect/union/difference` results are compared with `vf.regoracle` (built from the same
JSON spec, never from the Scenic objects); composed regions are judged by Boolean combination
of the operands' verdicts.  Probes inside the near-boundary band are not judged.
"""

from __future__ import annotations

import math
import random

import numpy as np

from vf import c16_gen as gen
from vf import core
from vf import regoracle as ro
from vf.regoracle import IN, NEAR, OUT

PROP = "C16"
NEEDS_PARSER = False
FLOOR = 0.30
RULE = ("every ordered pair of 13 region kinds (Box, Spheroid, extruded-polygon MeshVolume, "
        "MeshSurface, Polygon with holes/multipolygon, Circle, Sector, Rectangle, Polyline, 3D "
        "Path, PointSet, Grid, Footprint; plus everywhere/nowhere), shapes/poses/heights drawn "
        "from a harness RNG keyed by (VERIF_SEED, pair, repetition); planar regions at z != 0 in "
        "most cases, 15% of parametric operands built lazily (random parameter) and sampled; "
        "probes = uniform in the joint box, snapped to the planes / to z = 0, oracle samples of "
        "both operands and jittered copies, vertices of thin sets.  Plus, per repetition, 8 histories "
        "(one shared region object meeting 3-4 partners in sequence, vertical extents 0.1...600, "
        "each step judged on a fresh twin and on the shared object) and 20 containment cases "
        "(convex containers with aspect up to 1:80, lower-dimensional inner regions whose measure "
        "number exceeds the container's).  Non-trivial = neither operand "
        "trivial and the oracle finds a probe in both operands and a probe in exactly one; "
        "distinct = SHA-1 of the case JSON.")
ASSUMPTIONS = [
    "vf.regoracle (analytic signed distances; icosphere/box arrays of trimesh.creation as trusted "
    "base; shapely only on generator-built polygons) with start-up self-check",
    "band = 1e-3 * size (+ the 4*resolution-gon sagitta for discs/sectors): probes nearer than "
    "that to a boundary are not judged",
    "PolygonalRegion.containsPoint (and the footprint conversion used by generic composed "
    "regions) ignoring height is documented/intended 2D behaviour: classed unjudged:..., not failed",
    "PolylineRegion membership is an exact test without tolerance: only exact vertices are "
    "treated as certain members",
]

QUICK_REPS, THOROUGH_REPS = 4, 40
HISTORY_PER_REP, CONTAIN_PER_REP = 8, 20
GENERIC = ("IntersectionRegion", "UnionRegion", "DifferenceRegion")


def all_pairs():
    ps = [(a, b) for a in gen.KINDS for b in gen.KINDS]
    ps += [("Everywhere", "Box"), ("Polygon", "Everywhere"), ("Nowhere", "Circle"),
           ("MeshVol", "Nowhere"), ("Everywhere", "PointSet"), ("Path", "Everywhere"),
           ("Nowhere", "Polyline"), ("Rectangle", "Nowhere")]
    return ps


def make_case(seed, ka, kb, k, nprobe):
    rnd = random.Random(f"C16:{seed}:{ka}:{kb}:{k}")
    A, B = gen.gen_pair(ka, kb, rnd)
    return {"pair": [ka, kb], "A": A, "B": B, "seed": rnd.randrange(1 << 30), "nprobe": nprobe}


def make_history_case(seed, k, nprobe):
    rnd = random.Random(f"C16:history:{seed}:{k}")
    shared, partners = gen.gen_history(rnd)
    return {"mode": "history", "shared": shared, "partners": partners,
            "seed": rnd.randrange(1 << 30), "nprobe": nprobe}


def make_contain_case(seed, k):
    rnd = random.Random(f"C16:contain:{seed}:{k}")
    A, B = gen.gen_contained(rnd)
    return {"mode": "contain", "A": A, "B": B, "seed": rnd.randrange(1 << 30)}


# ------------------------------------------------------------------------------------------
# helpers
# ------------------------------------------------------------------------------------------

def explicit_raise(e):
    """Was the exception raised by an explicit `raise` statement inside scenic?  (Decided on the
    byte code of the innermost frame, not on the source text, which may change on disk.)"""
    import dis

    tb = e.__traceback__
    if tb is None:
        return False
    while tb.tb_next is not None:
        tb = tb.tb_next
    code = tb.tb_frame.f_code
    if "/scenic/" not in code.co_filename.replace("\\", "/"):
        return False
    for ins in dis.get_instructions(code):
        if ins.offset == tb.tb_lasti:
            return ins.opname == "RAISE_VARARGS"
    return False


def documented(e):
    from scenic.core.distributions import RejectionException
    from scenic.core.regions import UndefinedSamplingException

    if isinstance(e, (RejectionException, UndefinedSamplingException)):
        return True
    if isinstance(e, NotImplementedError):
        return True
    # (a `raise` whose operand is not an exception fails with this TypeError of the
    # interpreter's: that is an accident, not a documented refusal)
    return (isinstance(e, TypeError) and bool(str(e)) and explicit_raise(e)
            and "must derive from BaseException" not in str(e))


class Ctx:
    def __init__(self, out):
        self.out = out
        self.seen = set()
        self.classes = set()

    tag = None  # ":lazy" / ":history": a twin of the same case was judged before; only failures
    #             the twin did not show are reported, with the tag appended to the cell
    nfail = 0  # number of fail() calls, including the ones folded into an earlier signature

    def fail(self, sig, **detail):
        self.nfail += 1
        cell, sym = sig.split("|", 1)
        if "@" in sym or sym in ("height-lost", "operand-height-ignored") or sym.endswith(":height"):
            # symptoms that have nothing to do with the shape of a sector
            sig = cell.replace(":wide-sector", "") + "|" + sym
        if sig in self.seen:
            return
        if self.tag:
            sig = sig.replace("|", self.tag + "|", 1)
            if sig in self.seen:
                return
        self.seen.add(sig)
        self.out.fail(sig, **detail)

    def cls(self, name):
        """Class a case at most once per name."""
        if name not in self.classes:
            self.classes.add(name)
            self.out.cls(name)

    def call(self, cell, fn):
        """-> (status, value); status in ok / unsupported / failed"""
        try:
            return "ok", fn()
        except core.CaseTimeout:
            raise
        except Exception as e:  # noqa
            if documented(e):
                what = cell.split(":", 1)[0]
                self.cls("unsupported:" + (what if "-of-" in what else cell.split(":wide-sector")[0]))
                return "unsupported", e
            self.fail(f"{cell}|{core.exc_signature(e)}", error=repr(e)[:300])
            return "failed", e


def compat(got, v):
    """Is the boolean answer compatible with the tri-state verdict?"""
    return v == NEAR or got == (v == IN)


def vec(p):
    from scenic.core.vectors import Vector

    return Vector(float(p[0]), float(p[1]), float(p[2]))


def verdict(o, P, band, footprint=False):
    if isinstance(o, ro.Grid):
        v = o.classify_cells(P, band)
        if not footprint:
            v = np.where(np.abs(P[:, 2]) <= ro.ZTINY, v, NEAR).astype(np.int8)
        return v
    return o.classify_footprint(P, band) if footprint else o.classify(P, band)


def finite_box(shapes, pad):
    los, his = [], []
    for o in shapes:
        lo, hi = o.aabb()
        los.append(np.asarray(lo, float))
        his.append(np.asarray(hi, float))
    lo = np.full(3, np.inf)
    hi = np.full(3, -np.inf)
    for l_, h_ in zip(los, his):
        for i in range(3):
            if np.isfinite(l_[i]) and np.isfinite(h_[i]):
                lo[i] = min(lo[i], l_[i])
                hi[i] = max(hi[i], h_[i])
    for i in range(3):
        if not np.isfinite(lo[i]):
            lo[i], hi[i] = -3.0, 3.0
    d = np.maximum(hi - lo, 1.0)
    return lo - pad * d, hi + pad * d


def osample(o, rng, n, zr):
    if isinstance(o, (ro.Everywhere, ro.Nowhere)):
        return np.zeros((0, 3))
    if isinstance(o, ro.Footprint):
        return o.sample(rng, n, zr)
    return o.sample(rng, n)


def make_probes(oa, ob, rng, n, band):
    lo, hi = finite_box([oa, ob], 0.2)
    zr = (lo[2], hi[2])
    parts = [lo + (hi - lo) * rng.random((n, 3))]
    for o in (oa, ob):
        S = osample(o, rng, max(4, n // 3), zr)
        parts.append(S)
        if len(S):
            J = S + rng.normal(size=S.shape) * rng.choice([5 * band, 0.15 * max(o.scale, 1.0)],
                                                           size=(len(S), 1))
            parts.append(J)
        if o.thin and hasattr(o, "vertices"):
            parts.append(o.vertices()[:12])
        if isinstance(o, ro.Points):
            parts.append(o.P[:12])
    P = np.concatenate(parts)
    # copies snapped to the planes of planar operands and to z = 0
    snaps = []
    for o in (oa, ob):
        if o.planar_z is not None:
            Q = P[rng.random(len(P)) < 0.5].copy()
            Q[:, 2] = o.planar_z
            snaps.append(Q)
    Q = P[rng.random(len(P)) < 0.25].copy()
    Q[:, 2] = 0.0
    snaps.append(Q)
    P = np.concatenate([P] + snaps)
    if len(P) > 4 * n:
        keep = rng.permutation(len(P))[: 4 * n]
        P = P[np.sort(keep)]
    return P


def concretize(reg):
    from scenic.core.lazy_eval import needsSampling

    return reg.sample() if needsSampling(reg) else reg


def wide_sector(o):
    """Sectors wider than 120 degrees (and not the whole disc): the class of inputs on which the
    polygon representing a SectorRegion is known to differ from the sector itself."""
    return isinstance(o, ro.Sector) and not o.full and o.angle > 2 * math.pi / 3 - 1e-9


def pair_cell(op, fams, oa, ob):
    return f"{op}:{fams[0]}×{fams[1]}" + (":wide-sector" if wide_sector(oa) or wide_sector(ob) else "")


def height_feature(oa, ob):
    zs = [o.planar_z for o in (oa, ob) if o.planar_z is not None]
    return ":z≠0" if any(z != 0 for z in zs) else ""


# ------------------------------------------------------------------------------------------
# unary checks (on the first operand)
# ------------------------------------------------------------------------------------------

def check_unary(cx, A, oa, kind, P, va, band, rng):
    out = cx.out
    if wide_sector(oa):
        kind = kind + ":wide-sector"
    scale = max(oa.scale, 1.0) if np.isfinite(oa.scale) else 1.0
    vaF = verdict(oa, P, band, footprint=True)
    # -- containsPoint ---------------------------------------------------------------------
    cell = f"containsPoint:{kind}"
    for i, p in enumerate(P):
        if va[i] == NEAR:
            continue
        st, got = cx.call(cell, lambda: bool(A.containsPoint(vec(p))))
        if st != "ok":
            break
        if got != (va[i] == IN):
            if kind.split(":")[0] in ("Polygon", "Rectangle") and compat(got, vaF[i]):
                cx.cls("unjudged:containsPoint-ignores-height:" + kind.split(":")[0])
                continue
            sym = "member-rejected" if va[i] == IN else "nonmember-accepted"
            if oa.planar_z is not None and vaF[i] == IN and va[i] == OUT:
                sym += ":off-plane"
            cx.fail(f"{cell}|{sym}", point=list(p), expected=bool(va[i] == IN), observed=got)
    # -- distanceTo ------------------------------------------------------------------------
    cell = f"distanceTo:{kind}"
    if not isinstance(oa, (ro.Everywhere, ro.Nowhere)):
        sel = np.sort(rng.permutation(len(P))[:40])
        D = np.zeros(len(P))
        D[sel] = oa.dist(P[sel])
        for i in sel:
            p = P[i]
            st, got = cx.call(cell, lambda: float(A.distanceTo(vec(p))))
            if st != "ok":
                break
            tol = 1e-6 * max(1.0, D[i], scale) + oa.approx
            if abs(got - D[i]) > tol:
                sym = "too-small" if got < D[i] else "too-large"
                if abs(p[2]) <= ro.ZTINY and oa.planar_z not in (None, 0.0):
                    sym += ":probe-at-z0"
                cx.fail(f"{cell}|wrong-distance:{sym}", point=list(p), expected=float(D[i]),
                        observed=got)
            elif not isinstance(oa, ro.Grid):
                if va[i] == IN and got > tol:
                    cx.fail(f"{cell}|positive-on-member", point=list(p), observed=got)
                if va[i] == OUT and got <= 0:
                    cx.fail(f"{cell}|zero-on-nonmember", point=list(p), observed=got)
    # -- AABB ------------------------------------------------------------------------------
    cell = f"AABB:{kind}"
    st, got = cx.call(cell, lambda: A.AABB)
    if st == "ok":
        lo, hi = oa.aabb()
        g = np.array([list(map(float, got[0])), list(map(float, got[1]))])
        e = np.array([lo, hi], float)
        tol = 1e-6 * scale + oa.approx
        bad = np.abs(g - e) > tol
        if bad.any():
            ax = "z" if bad[:, 2].any() and not bad[:, :2].any() else "xy"
            cx.fail(f"{cell}|wrong-bounds:{ax}", expected=e.tolist(), observed=g.tolist())
    # -- size ------------------------------------------------------------------------------
    cell = f"size:{kind}"
    st, got = cx.call(cell, lambda: A.size)
    if st == "ok" and got is not None:
        m = oa.measure()
        rel = 1e-6 + (6 * oa.approx / scale if oa.approx else 0.0)
        if (math.isinf(m) != math.isinf(got)) or (np.isfinite(m) and abs(got - m) > rel * max(m, 1e-9)):
            cx.fail(f"{cell}|wrong-measure:{'too-small' if got < m else 'too-large'}",
                    expected=m, observed=float(got))
    # -- projectVector ---------------------------------------------------------------------
    cell = f"projectVector:{kind}"
    T = oa.triangles()
    dirs = [None, (0.0, 0.0, 1.0)]
    for _ in range(3):
        d = rng.normal(size=3)
        dirs.append(tuple(d / np.linalg.norm(d)))
    idx = list(rng.permutation(len(P))[:8])
    for i in idx:
        p = P[i]
        for d in dirs:
            if d is None and kind == "MeshSurf":
                continue  # the default direction of a closed surface (mean normal) is undefined
            st, got = cx.call(cell, lambda: A.projectVector(vec(p), d))
            if st != "ok":
                break
            if d == (0.0, 0.0, 1.0) and i == idx[0]:
                # a Workspace answers for its region: same projection through the wrapper
                from scenic.core.workspaces import Workspace
                wcell = f"projectVector:Workspace({kind})"
                st2, got2 = cx.call(wcell, lambda: Workspace(A).projectVector(vec(p), d))
                if st2 == "ok" and got is not None and got2 is not None and \
                        np.linalg.norm(np.array(got2, float) - np.array(got, float)) > 1e-9 * scale:
                    cx.fail(f"{wcell}|differs-from-region", point=[float(x) for x in p],
                            region=[float(x) for x in got], workspace=[float(x) for x in got2])
            if T is None:
                cx.cls("unjudged:projectVector-no-oracle:" + kind)
                break
            if va[i] == NEAR:
                continue
            dd = np.array(d if d is not None else (0.0, 0.0, 1.0))
            if va[i] == IN:
                exp = p
            else:
                exp, stable = project_oracle(p, dd, [T], lambda Q: oa.sdist(Q) <= 1e-7 * scale, scale)
                if not stable:
                    cx.cls("near-boundary:projection")
                    continue
            judge_projection(cx, cell, p, dd, exp, got, scale,
                             lambda Q: oa.sdist(Q) <= 1e-5 * scale)
        else:
            continue
        break


def project_oracle(p, d, tris, member, scale):
    """Nearest member along the line, and whether the answer is stable under tiny rotations of
    the direction (grazing rays are not judged)."""
    hit = ro.nearest_along(p, d, tris, member, 0.0)
    ref = None if hit is None else hit[1]
    for eps in (1e-5, -1e-5):
        e = np.cross(d, [0.3, -0.5, 0.81])
        d2 = d + eps * e
        h2 = ro.nearest_along(p, d2 / np.linalg.norm(d2), tris, member, 0.0)
        if (h2 is None) != (hit is None):
            return ref, False
        if hit is not None and abs(h2[0] - hit[0]) > 1e-3 * scale:
            return ref, False
    return ref, True


def judge_projection(cx, cell, p, d, exp, got, scale, member):
    if exp is None:
        if got is not None:
            cx.fail(f"{cell}|point-but-no-member-on-line", point=list(p), direction=list(d),
                    observed=list(got))
        return
    if got is None:
        cx.fail(f"{cell}|none-but-member-on-line", point=list(p), direction=list(d),
                expected=list(exp))
        return
    g = np.array([float(got[0]), float(got[1]), float(got[2])])
    if np.linalg.norm(g - exp) <= 1e-5 * scale:
        return
    rel = g - p
    off_line = np.linalg.norm(rel - np.dot(rel, d) * d)
    if off_line <= 1e-5 * scale and member(g[None])[0]:
        sym = "not-nearest"
    else:
        sym = "not-a-member-on-the-line"
    cx.fail(f"{cell}|{sym}", point=list(p), direction=list(d), expected=list(exp), observed=list(g))


# ------------------------------------------------------------------------------------------
# binary checks
# ------------------------------------------------------------------------------------------

def composed_size(op, oa, ob):
    """Exact measure of the composed set where it can be computed; None otherwise."""
    if isinstance(oa, ro.Planar) and isinstance(ob, ro.Planar):
        if oa.planar_z != ob.planar_z:
            return None
        pa, pb = oa.as_polygon(), ob.as_polygon()
        g = {"intersect": pa.intersection, "union": pa.union, "difference": pa.difference}[op](pb)
        return float(g.area), 2e-3
    convex3 = (ro.Box, ro.Spheroid)
    if isinstance(oa, convex3) and isinstance(ob, convex3):
        Na, fa = ro.convex_halfspaces(oa)
        Nb, fb = ro.convex_halfspaces(ob)
        vi = ro.halfspace_volume(np.concatenate([Na, Nb]), np.concatenate([fa, fb]))
        v = {"intersect": vi, "union": oa.measure() + ob.measure() - vi,
             "difference": oa.measure() - vi}[op]
        return float(v), 1e-4
    return None


def lifted_verdict(op, oa, ob, P, band):
    """Verdict of the *footprint of the composed 3D set*: IN if the point, moved vertically into
    the plane of a planar operand, belongs to the composed set."""
    best = np.full(len(P), OUT, np.int8)
    for o in (oa, ob):
        if o.planar_z is None:
            continue
        Q = P.copy()
        Q[:, 2] = o.planar_z
        e = ro.combine(op, verdict(oa, Q, band), verdict(ob, Q, band))
        best = np.where((best == IN) | (e == IN), IN, np.where((best == NEAR) | (e == NEAR), NEAR, OUT))
    return best.astype(np.int8)


def check_binary(cx, op, A, B, oa, ob, fams, P, va, vb, band, rng, nsamp):
    out = cx.out
    cell = pair_cell(op, fams, oa, ob)
    hf = height_feature(oa, ob)
    nfail0 = cx.nfail
    st, R = cx.call(cell, lambda: concretize(getattr(A, op)(B)))
    if st != "ok":
        return
    rtype = type(R).__name__
    out.cls(f"result:{op}:{'generic' if rtype in GENERIC else rtype}")
    vaF, vbF = verdict(oa, P, band, True), verdict(ob, P, band, True)
    E = ro.combine(op, va, vb)
    if op == "difference" and ob.dim < oa.dim and (vb == IN).any():
        # removing a set of lower dimension changes A on a null set only; the library cannot
        # represent that and the statement speaks of points clear of the boundaries: not judged
        E = np.where(vb == IN, NEAR, E).astype(np.int8)
        out.cls("unjudged:difference-with-lower-dimensional-set")
    # readings under which some containsPoint ignores the height of a planar operand or of the
    # planar result (documented footprint behaviour): never failed, classed unjudged
    variants = [ro.combine(op, vaF, vbF), ro.combine(op, vaF, vb), ro.combine(op, va, vbF),
                lifted_verdict(op, oa, ob, P, band)]
    scale = max([s for s in (oa.scale, ob.scale) if np.isfinite(s)] + [1.0])
    members = P[E == IN]
    trivial = rtype in ("EmptyRegion", "AllRegion")

    # (a) containsPoint of the result
    rejected = False
    for i, p in enumerate(P):
        if E[i] == NEAR:
            continue
        st, got = cx.call(cell, lambda: bool(R.containsPoint(vec(p))))
        if st != "ok":
            break
        if got == (E[i] == IN):
            continue
        if any(compat(got, v[i]) for v in variants):
            cx.cls("unjudged:containsPoint-ignores-height:result")
            continue
        sym = "member-rejected" if E[i] == IN else "nonmember-accepted"
        rejected = rejected or E[i] == IN
        cx.fail(f"{cell}|{sym}", point=list(p), result=rtype, expected=bool(E[i] == IN),
                observed=got, inA=int(va[i]), inB=int(vb[i]))

    # (b) samples of the result lie in the composed set
    from scenic.core.distributions import RejectionException
    from scenic.core.regions import UndefinedSamplingException

    height_lost = []
    height_ignored = []
    samples = []
    if not trivial:
        tries = 0
        while len(samples) < nsamp and tries < 40 * nsamp:
            tries += 1
            try:
                s = R.uniformPointInner()
                samples.append([float(s[0]), float(s[1]), float(s[2])])
            except core.CaseTimeout:
                raise
            except RejectionException:
                continue
            except UndefinedSamplingException:
                cx.cls("unsupported:sample-of-result")
                break
            except Exception as e:  # noqa
                if isinstance(e, RuntimeError) and explicit_raise(e) and \
                        isinstance(oa, ro.Everywhere):
                    cx.cls("unsupported:sample-of-result")  # "Attempted to sample from everywhere"
                    break
                cx.fail(f"{cell}|sample:{core.exc_signature(e)}", error=repr(e)[:300], result=rtype)
                break
    if samples:
        S = np.array(samples)
        sa, sb = verdict(oa, S, band), verdict(ob, S, band)
        ES = ro.combine(op, sa, sb)
        ESF = ro.combine(op, verdict(oa, S, band, True), verdict(ob, S, band, True))
        for i in np.where(ES == OUT)[0]:
            if ESF[i] != OUT:
                height_lost.append({"sample": samples[i], "inA": int(sa[i]), "inB": int(sb[i])})
            else:
                cx.fail(f"{cell}|sample-outside", sample=samples[i], result=rtype,
                        inA=int(sa[i]), inB=int(sb[i]))
        out.cls("sampled:" + op)

    # (c) bounding box of the result contains the members and the samples
    #     (an operand returned unchanged is covered by the unary checks)
    same = R is A or R is B or cx.tag == ":lazy"  # (the eager twin covers derived quantities)
    if not trivial and not same:
        st, bb = cx.call(f"AABB-of-{cell}", lambda: R.AABB)
        if st == "ok":
            lo = np.array(list(map(float, bb[0])))
            hi = np.array(list(map(float, bb[1])))
            tol = 1e-6 * scale + oa.approx + ob.approx
            pts = members if not samples else np.concatenate([members, np.array(samples)])
            fpv = np.concatenate([variants[0][E == IN], np.full(len(samples), IN, np.int8)])
            seen_xy = seen_z = False
            for p, fp in zip(pts, fpv):
                bad = (p < lo - tol) | (p > hi + tol)
                if not bad.any():
                    continue
                if fp == OUT:
                    # a member only because an operand lies in another plane: the result was
                    # computed as if all operands were in one plane
                    height_ignored.append({"member": list(p), "aabb": [lo.tolist(), hi.tolist()]})
                elif bad[2] and not bad[:2].any():
                    if not seen_z:
                        height_lost.append({"member": list(p), "aabb": [lo.tolist(), hi.tolist()]})
                    seen_z = True
                elif not seen_xy and not rejected:
                    cx.fail(f"{cell}|aabb-excludes-member", point=list(p),
                            aabb=[lo.tolist(), hi.tolist()], result=rtype)
                    seen_xy = True

    if height_lost:
        # one signature for "the result sits at the wrong height"; its consequences on
        # distanceTo / _trueContainsPoint / size are not reported separately
        cx.fail(f"{cell}{hf}|height-lost", result=rtype, evidence=height_lost[:2])
    if height_ignored:
        cx.fail(f"{cell}{hf}|operand-height-ignored", result=rtype, evidence=height_ignored[:2])
    if cx.nfail > nfail0 or height_lost or height_ignored:
        return  # derived quantities of a result that is already wrong are not reported again

    # (a') _trueContainsPoint of concrete results (strict 3D: it is what the samplers rely on)
    if rtype not in GENERIC and not trivial:
        for i, p in enumerate(P):
            if E[i] == NEAR:
                continue
            st, got = cx.call(cell + ":trueContains", lambda: bool(R._trueContainsPoint(vec(p))))
            if st != "ok":
                break
            if got != (E[i] == IN):
                if variants[0][i] != NEAR and got == (variants[0][i] == IN):
                    # right if every operand were in one plane: the heights were ignored
                    cx.fail(f"{cell}{hf}|operand-height-ignored", result=rtype,
                            evidence=[{"point": list(p), "expected": bool(E[i] == IN), "observed": got}])
                    return
                sym = "member-rejected" if E[i] == IN else "nonmember-accepted"
                cx.fail(f"{cell}|{sym}:trueContains", point=list(p), result=rtype,
                        expected=bool(E[i] == IN), observed=got, inA=int(va[i]), inB=int(vb[i]))
        if cx.nfail > nfail0:
            return

    # (d) distance from the result (an operand returned unchanged is covered by the unary checks)
    if not trivial and not same:
        sel = list(rng.permutation(len(P))[:25])
        da, db = np.zeros(len(P)), np.zeros(len(P))
        da[sel], db[sel] = oa.dist(P[sel]), ob.dist(P[sel])
        for i in sel:
            p = P[i]
            st, got = cx.call(f"distanceTo-of-{cell}", lambda: float(R.distanceTo(vec(p))))
            if st != "ok":
                break
            tol = 1e-6 * max(1.0, scale) + oa.approx + ob.approx
            lower = {"intersect": max(da[i], db[i]), "union": min(da[i], db[i]),
                     "difference": da[i]}[op]
            upper = np.inf
            if len(members):
                upper = float(np.linalg.norm(members - p[None], axis=1).min())
            sym = None
            if E[i] == IN and got > tol:
                sym = "positive-on-member"
            elif got < lower - tol - 1e-6 * lower:
                sym = "too-small"
            elif got > upper + tol + 1e-6 * upper:
                sym = "too-large"
            elif op == "union" and abs(got - lower) > tol + 1e-6 * lower:
                sym = "too-large"
            if sym:
                cx.fail(f"distanceTo-of-{cell}|wrong-distance:{sym}", point=list(p),
                        observed=got, lower=float(lower), upper=float(upper), result=rtype)

    # (e) size of the result
    if rtype not in GENERIC + ("AllRegion",) and not same:
        cs = composed_size(op, oa, ob)
        st, got = cx.call(f"size-of-{cell}", lambda: R.size)
        if cs is not None and st == "ok" and got is not None:
            m, rel = cs
            ref = max([x for x in (oa.measure(), ob.measure()) if np.isfinite(x)] + [1e-9])
            if abs(float(got) - m) > rel * ref + 1e-9:
                cx.fail(f"size-of-{cell}|wrong-measure:{'too-small' if got < m else 'too-large'}",
                        expected=m, observed=float(got), result=rtype)

    # (f) projection onto a solid result
    Ta, Tb = oa.triangles(), ob.triangles()
    if rtype == "MeshVolumeRegion" and Ta is not None and Tb is not None \
            and not oa.thin and not ob.thin:
        tolm = 1e-6 * scale

        def member(Q, t=tolm):
            a = oa.sdist(Q) <= t
            b = ob.sdist(Q) <= t
            if op == "intersect":
                return a & b
            if op == "union":
                return a | b
            return a & (ob.sdist(Q) >= -t)

        for i in list(rng.permutation(len(P))[:5]):
            if E[i] == NEAR:
                continue
            p = P[i]
            d = rng.normal(size=3)
            d /= np.linalg.norm(d)
            st, got = cx.call(f"projectVector-of-{cell}", lambda: R.projectVector(vec(p), tuple(d)))
            if st != "ok":
                break
            if E[i] == IN:
                exp = p
            else:
                exp, stable = project_oracle(p, d, [Ta, Tb], member, scale)
                if not stable:
                    cx.cls("near-boundary:projection")
                    continue
            judge_projection(cx, f"projectVector-of-{cell}", p, d, exp, got, scale,
                             lambda Q: member(Q, 1e-5 * scale))


def check_intersects(cx, A, B, oa, ob, kinds, P, va, vb, band):
    names = kinds if tuple(kinds) == ("Circle", "Circle") else (gen.FAMILY[kinds[0]], gen.FAMILY[kinds[1]])
    cell = pair_cell("intersects", names, oa, ob)
    st, got = cx.call(cell, lambda: bool(A.intersects(B)))
    if st != "ok":
        return
    if isinstance(oa, ro.Grid):
        va = oa.classify(P, band)  # `intersects` of a grid is about its points
    if isinstance(ob, ro.Grid):
        vb = ob.classify(P, band)
    E = ro.combine("intersect", va, vb)
    share = bool((E == IN).any())
    # disjoint by construction: separated bounding boxes, or parallel planes
    gap = band + oa.approx + ob.approx
    (alo, ahi), (blo, bhi) = oa.aabb(), ob.aabb()
    alo, ahi, blo, bhi = (np.asarray(x, float) for x in (alo, ahi, blo, bhi))
    with np.errstate(invalid="ignore"):
        sep = (alo - bhi > gap) | (blo - ahi > gap)
    disjoint = bool(sep.any()) or isinstance(oa, ro.Nowhere) or isinstance(ob, ro.Nowhere)
    height_only = bool(sep[2] and not sep[:2].any())
    if share and not got:
        cx.fail(f"{cell}|false-but-share-a-point", witness=list(P[E == IN][0]))
    elif disjoint and got:
        if height_only:
            ignores = ("Polygon", "Rectangle")
            if any(k in ignores for k in kinds) and any(k in ("PointSet", "Grid") for k in kinds):
                # point-set test through PolygonalRegion.containsPoint (height ignored by design)
                cx.out.cls("unjudged:intersects-via-containsPoint-ignoring-height")
                return
            cx.fail(f"{cell}{height_feature(oa, ob)}|true-but-disjoint:height")
        else:
            cx.fail(f"{cell}|true-but-disjoint")
    cx.out.cls("intersects:" + ("share" if share else "disjoint" if disjoint else "unknown"))


def check_contains_region(cx, A, B, oa, ob, fams, band, rng):
    cell = pair_cell("containsRegion", fams, oa, ob)
    st, got = cx.call(cell, lambda: bool(A.containsRegion(B)))
    if st != "ok":
        return
    if isinstance(ob, (ro.Everywhere, ro.Nowhere)) or isinstance(oa, (ro.Everywhere, ro.Nowhere)):
        truth = isinstance(oa, ro.Everywhere) or isinstance(ob, ro.Nowhere)
        if got != truth:
            cx.fail(f"{cell}|wrong-trivial-answer", expected=truth, observed=got)
        return
    lo, hi = finite_box([oa, ob], 0.0)
    S = np.concatenate([osample(ob, rng, 48, (lo[2], hi[2])), ob.hull_points()[:64]])
    S = S[np.isfinite(S).all(axis=1)]
    v3 = verdict(oa, S, band)
    vF = verdict(oa, S, band, footprint=True)
    if (v3 == OUT).any():
        if got:
            if not (vF == OUT).any():
                cx.out.cls("unjudged:containsRegion-ignores-height")
            else:
                cx.fail(f"{cell}|true-but-part-outside", witness=list(S[vF == OUT][0]))
        cx.out.cls("containsRegion:not-contained")
        return
    H = ob.hull_points()
    if oa.convex and np.isfinite(H).all() and (verdict(oa, H, band) == IN).all():
        cx.out.cls("containsRegion:contained")
        if not got:
            cx.fail(f"{cell}|false-but-contained", container_measure=oa.measure(),
                    inner_measure=ob.measure(), dims=[oa.dim, ob.dim])


# ------------------------------------------------------------------------------------------
# judge
# ------------------------------------------------------------------------------------------

def judge(case):
    ro.selftest()
    if case.get("mode") == "history":
        return judge_history(case)
    if case.get("mode") == "contain":
        return judge_contain(case)
    out = core.Outcome()
    ka, kb = case["pair"]
    fams = (gen.FAMILY[ka], gen.FAMILY[kb])
    out.cls(f"pair:{ka}×{kb}")
    try:
        oa, ob = ro.from_spec(case["A"]), ro.from_spec(case["B"])
    except ro.OracleError as e:
        raise core.HarnessError(f"generator produced an invalid spec: {e}")
    seed = case["seed"]
    random.seed(seed)
    np.random.seed(seed % (1 << 32))
    rng = np.random.default_rng(seed)
    cx = Ctx(out)
    st, A = cx.call(f"construct:{ka}", lambda: gen.build(case["A"]))
    st2, B = cx.call(f"construct:{kb}", lambda: gen.build(case["B"]))
    if st != "ok" or st2 != "ok":
        return out
    lazyA, lazyB = bool(case["A"].get("lazy")), bool(case["B"].get("lazy"))
    if lazyA or lazyB:
        out.cls("lazy-operand")
    if case["A"].get("hug"):
        out.cls("overlap-plus-shared-boundary")
    scales = [s for s in (oa.scale, ob.scale) if np.isfinite(s) and s > 0]
    band = 1e-3 * max(scales + [1.0])
    P = make_probes(oa, ob, rng, case["nprobe"], band)
    va, vb = verdict(oa, P, band), verdict(ob, P, band)
    both = int(((va == IN) & (vb == IN)).sum())
    one = int(((va == IN) & (vb == OUT)).sum() + ((va == OUT) & (vb == IN)).sum())
    trivial_kind = any(k in ("Everywhere", "Nowhere") for k in (ka, kb))
    out.nontrivial = (not trivial_kind) and both > 0 and one > 0
    out.cls("overlap:" + ("partial" if both and one else "none" if not both else "total"))
    for o in (oa, ob):
        if o.planar_z is not None:
            out.cls("planar:z≠0" if o.planar_z != 0 else "planar:z=0")
    if oa.planar_z is not None and ob.planar_z is not None:
        out.cls("planes:same" if oa.planar_z == ob.planar_z else "planes:different")

    Ac, Bc = A, B
    if lazyA:
        st, Ac = cx.call(f"sample-lazy:{ka}", lambda: concretize(A))
        if st != "ok":
            return out
    if lazyB:
        st, Bc = cx.call(f"sample-lazy:{kb}", lambda: concretize(B))
        if st != "ok":
            return out
    check_unary(cx, Ac, oa, ka, P, va, band, rng)
    nsamp = 10
    for op in ("intersect", "union", "difference"):
        check_binary(cx, op, Ac, Bc, oa, ob, fams, P, va, vb, band, rng, nsamp)
    check_intersects(cx, Ac, Bc, oa, ob, (ka, kb), P, va, vb, band)
    check_contains_region(cx, Ac, Bc, oa, ob, fams, band, rng)
    if lazyA or lazyB:
        # the same operations on the lazily built operands (result sampled afterwards); only
        # failures the eager twins did not already show are reported, tagged `:lazy`
        cx.tag = ":lazy"
        for op in ("intersect", "union", "difference"):
            check_binary(cx, op, A, B, oa, ob, fams, P, va, vb, band, rng, nsamp)
    return out


def hscale(o):
    lo, hi = o.aabb()
    d = [hi[i] - lo[i] for i in range(2)]
    return float(np.hypot(*d)) if np.all(np.isfinite(d)) else 0.0


def judge_history(case):
    """Several operations in sequence on the SAME shared region object (different partners,
    vertical extents differing by orders of magnitude); each step is first judged on a freshly
    built twin of the shared region, then on the shared object itself."""
    out = core.Outcome()
    out.cls("mode:history", "shared:" + case["shared"]["kind"])
    try:
        osh = ro.from_spec(case["shared"])
        obs = [ro.from_spec(p) for p in case["partners"]]
    except ro.OracleError as e:
        raise core.HarnessError(f"generator produced an invalid spec: {e}")
    seed = case["seed"]
    random.seed(seed)
    np.random.seed(seed % (1 << 32))
    rng = np.random.default_rng(seed)
    cx = Ctx(out)
    ks = case["shared"]["kind"]
    st, S = cx.call(f"construct:{ks}", lambda: gen.build(case["shared"]))
    if st != "ok":
        return out
    partial = 0
    for step, (spec, ob) in enumerate(zip(case["partners"], obs)):
        kb = spec["kind"]
        st, B = cx.call(f"construct:{kb}", lambda: gen.build(spec))
        st2, S0 = cx.call(f"construct:{ks}", lambda: gen.build(case["shared"]))
        if st != "ok" or st2 != "ok":
            return out
        band = 2e-3 * max(hscale(osh), hscale(ob), 1.0)
        P = make_probes(osh, ob, rng, case["nprobe"], band)
        vs, vb = verdict(osh, P, band), verdict(ob, P, band)
        both = int(((vs == IN) & (vb == IN)).sum())
        one = int(((vs == IN) & (vb == OUT)).sum() + ((vs == OUT) & (vb == IN)).sum())
        partial += bool(both and one)
        lo, hi = ob.aabb()
        out.cls("partner-height:%s" % ("<1" if hi[2] - lo[2] < 1 else "<30" if hi[2] - lo[2] < 30 else ">=30"))
        fs, fb = gen.FAMILY[ks], gen.FAMILY[kb]
        for tag, shared in ((None, S0), (":history", S)):
            cx.tag = tag
            for op in ("intersect", "difference", "union"):
                check_binary(cx, op, B, shared, ob, osh, (fb, fs), P, vb, vs, band, rng, 6)
                check_binary(cx, op, shared, B, osh, ob, (fs, fb), P, vs, vb, band, rng, 6)
            check_intersects(cx, B, shared, ob, osh, (kb, ks), P, vb, vs, band)
            check_intersects(cx, shared, B, osh, ob, (ks, kb), P, vs, vb, band)
        cx.tag = None
    out.nontrivial = partial >= 2
    return out


def judge_contain(case):
    """A convex, often very thin container and a region placed inside it (or sticking out)."""
    out = core.Outcome()
    out.cls("mode:contain")
    try:
        oa, ob = ro.from_spec(case["A"]), ro.from_spec(case["B"])
    except ro.OracleError as e:
        raise core.HarnessError(f"generator produced an invalid spec: {e}")
    ka, kb = case["A"]["kind"], case["B"]["kind"]
    seed = case["seed"]
    random.seed(seed)
    np.random.seed(seed % (1 << 32))
    rng = np.random.default_rng(seed)
    cx = Ctx(out)
    st, A = cx.call(f"construct:{ka}", lambda: gen.build(case["A"]))
    st2, B = cx.call(f"construct:{kb}", lambda: gen.build(case["B"]))
    if st != "ok" or st2 != "ok":
        return out
    band = 1e-3 * max([x for x in (oa.scale, ob.scale) if np.isfinite(x)] + [1.0])
    ma, mb = oa.measure(), ob.measure()
    if ob.dim < oa.dim and np.isfinite(ma) and mb > ma:
        out.cls("inner-measure-number-exceeds-container")
    out.cls(f"contain:{ka}⊇{kb}")
    check_contains_region(cx, A, B, oa, ob, (gen.FAMILY[ka], gen.FAMILY[kb]), band, rng)
    out.nontrivial = any(c in ("containsRegion:contained", "containsRegion:not-contained")
                         for c in out.classes)
    return out


def replay(case):
    return judge(case)


def plan(tier, seed, jobs):
    reps = QUICK_REPS if tier == "quick" else THOROUGH_REPS
    nprobe = 30 if tier == "quick" else 60
    pairs = all_pairs()
    jobs = max(1, jobs)
    return [{"seed": seed, "reps": reps, "nprobe": nprobe, "k": k, "of": jobs,
             "npairs": len(pairs)} for k in range(jobs)]


def run_shard(shard, tier):
    try:
        ro.selftest()
    except ro.OracleError as e:
        raise core.HarnessError(str(e))
    col = core.Collector(PROP, shard["id"])
    pairs = all_pairs()
    todo = [("pair", i, r) for r in range(shard["reps"]) for i in range(len(pairs))]
    todo += [("history", k, 0) for k in range(HISTORY_PER_REP * shard["reps"])]
    todo += [("contain", k, 0) for k in range(CONTAIN_PER_REP * shard["reps"])]
    for n, (mode, i, r) in enumerate(todo):
        if n % shard["of"] != shard["k"]:
            continue
        if mode == "pair":
            ka, kb = pairs[i]
            case = make_case(shard["seed"], ka, kb, r, shard["nprobe"])
            label = f"pair:{ka}×{kb}"
        elif mode == "history":
            case = make_history_case(shard["seed"], i, shard["nprobe"])
            label = "mode:history"
        else:
            case = make_contain_case(shard["seed"], i)
            label = "mode:contain"
        try:
            with core.time_limit(180):
                o = judge(case)
        except core.CaseTimeout:
            o = core.Outcome(inconclusive=True, classes=["timeout", label])
        col.add(case, o)
    return col.result()
