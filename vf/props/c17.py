"""C17 — visibility respects the view volume and occlusion.

Generated configurations (viewer Point / OrientedPoint / Object with cameraOffset, away from the
origin with yaw, pitch and roll; view angles 5 deg .. (360, 180) deg; ray densities, explicit ray
counts, distance scaling; targets vector / Point / OrientedPoint / Object of every shape ahead,
behind, above, at the window's edge, far, huge; 0-4 occluders built relative to a line of sight)
are judged by an analytic view volume, exact segment/convex-polytope clipping for point targets,
conservative certificates for object targets, metamorphic relations (occluder monotonicity,
irrelevant occluders, rigid motion of the whole configuration), `visibleRegion.containsPoint`,
compiled Scenic programs using `can see`, `visible [from]`, `not visible [from]`, `requireVisible`,
and histories: dynamic simulations in which targets and occluders move while `record (viewer can
see target)` asks the same viewer object at every step (each step judged like a static cell and
compared with a fresh evaluation on newly built objects).
Geometry lives in vf/c17_view.py (numpy only)."""

from __future__ import annotations

import math

import numpy as np
from hypothesis import strategies as st

from vf import c17_view as g
from vf import core

PROP = "C17"
NEEDS_PARSER = True
FLOOR = 0.65
RULE = ("Visibility configurations expanded from Hypothesis-drawn seeds: viewer kind x pose x view angles x "
        "visibleDistance x ray parameters, 2-4 targets placed in the viewer's own spherical "
        "coordinates (inside / at the edge of / outside the window, behind, above, far, near, "
        "huge), 0-4 occluders constructed relative to a line of sight (covering, partial, beside, "
        "behind, free), a rigid motion of everything, 1-3 statements of a compiled program, and for "
        "20 % (Object viewers) / 50 % (Point, OrientedPoint viewers) of the cases a 3-5 step dynamic "
        "simulation in which an Object target moves towards another target's place and walls move "
        "between their covering and beside positions while the viewer is asked at every step.  "
        "Non-trivial = viewer at least 5 from the origin and rotated by at least 20 deg about at "
        "least 2 of its yaw/pitch/roll axes; distinct = SHA-1 of the case.")
ASSUMPTIONS = [
    "unit meshes of the built-in shapes (shape.mesh vertices/faces) and Orientation.fromEuler / "
    "parentOrientation composition are trusted as data; world geometry is rebuilt from properties",
    "R = Rz(yaw) Rx(pitch) Ry(roll), heading 0 = +Y, azimuth CCW from +Y (data.rst, fundamentals.rst)",
    "object targets are asserted only through certificates robust to ray sampling: bounding sphere "
    "outside the view volume / covered by a convex occluder => not visible; centre in view and an "
    "inscribed ball of >= 6 nominal ray spacings wholly inside the view volume, every occluder "
    "certified irrelevant => visible; everything else is judged by metamorphic relations only",
    "visibleRegion is documented as an inexact mesh: judged outside a band of 0.02 rad / 2 % distance",
    "histories: the simulator is scenic.core.simulators.DummySimulation with step() moving each object "
    "by its own constant `c17step`; positions reported by `record` must equal the harness's own "
    "arithmetic (else exit 2); a step is compared with freshly built objects only if they are bit-equal",
]

SPAN_MIN = 6.0        # inscribed ball must span this many nominal ray spacings for must-be-visible
MAX_RAYS = 30000      # skip targets whose worst-case ray count exceeds this (cost only; an
MAX_RAYS_OCC = 6000   # occluded target makes the implementation cast every ray, ~1-3 ms each)
MAX_RAYS_PROG = 3000
REGION_ANG = 0.02
REGION_REL = 0.02
D20 = math.radians(20)

# ---------------------------------------------------------------------------------------------
# case -> world description (pure function of the case; numpy only)
# ---------------------------------------------------------------------------------------------

def _vec(az, alt, n):
    return g.direction(az, alt) * n


def derive(case):
    """World-frame description of the base configuration."""
    v = case["viewer"]
    W = {"kind": v["kind"]}
    pos = np.array(v["pos"], float)
    if v["kind"] == "Point":
        ypr = (0.0, 0.0, 0.0)
        h, vv = g.TAU, math.pi
    else:
        ypr = tuple(v["ypr"])
        h, vv = v["va"]
    R = g.rot(*ypr)
    camoff = np.array(v["cam"], float) if v["kind"] == "Object" else np.zeros(3)
    cam = pos + R @ camoff
    W.update(pos=pos, ypr=ypr, R=R, camoff=camoff, cam=cam, h=h, v=vv, vd=v["vd"], ray=v["ray"],
             dims=v.get("dims", [1, 1, 1]))
    targets = []
    for t in case["targets"]:
        loc = t["loc"]
        p = cam + R @ _vec(loc["az"], loc["alt"], loc["d"])
        e = {"kind": t["kind"], "pos": p, "occluding": bool(t.get("occluding", True))}
        if t["kind"] in ("Object", "OrientedPoint"):
            e["ypr"] = tuple(t["ypr"])
        if t["kind"] == "Object":
            e["shape"] = t["shape"]
            e["dims"] = [max(0.02, x) for x in t["dims"]]
        targets.append(e)
    W["targets"] = targets
    occ = []
    for o in case["occluders"]:
        tg = targets[o["tgt"] % len(targets)]
        u = tg["pos"] - cam
        d = float(np.linalg.norm(u))
        u = u / d
        rb = 0.5 * float(np.linalg.norm(tg["dims"])) if tg["kind"] == "Object" else 0.0
        e = {"occluding": bool(o.get("occluding", True)), "shape": o["shape"], "mode": o["mode"]}
        if o["mode"] == "free":
            loc = o["loc"]
            e["pos"] = cam + R @ _vec(loc["az"], loc["alt"], loc["d"])
            e["ypr"] = tuple(o["ypr"])
            e["dims"] = [max(0.05, x) for x in o["dims"]]
        else:
            rho = math.asin(min(rb / d, 0.8)) if d > 0 else 0.0
            f = o["f"]
            dist_w = f * max(d - rb, 0.3 * d)
            rc = max(dist_w * math.tan(rho + 0.01), 0.15)
            a = rc * o["k"] + 0.2
            aux = np.array([1.0, 0, 0]) if abs(u[0]) < 0.9 else np.array([0, 1.0, 0])
            e1 = np.cross(u, aux)
            e1 /= np.linalg.norm(e1)
            e2 = np.cross(u, e1)
            lx, ly = o["lat"]
            ln = math.hypot(lx, ly) or 1.0
            if o["mode"] == "cover":
                # |lat| <= 1: the wall still spans the cone; with a large k its centre can be
                # farther from the camera than the target is
                off = 0.6 * (a - rc) * (lx * e1 + ly * e2)
                centre = cam + dist_w * u + off
            elif o["mode"] == "partial":
                off = a * (0.7 + 0.5 * abs(lx)) * (lx * e1 + ly * e2) / ln
                centre = cam + dist_w * u + off
            elif o["mode"] == "beside":
                off = (1.5 * a + rc * (1.5 + 3 * abs(lx)) + 0.5) * (lx * e1 + ly * e2) / ln
                centre = cam + dist_w * u + off
            else:  # behind
                centre = cam + (d + rb + a + o["thick"] + f * d) * u + 0.3 * a * (lx * e1 + ly * e2)
            yaw0 = math.atan2(-u[0], u[1])
            pitch0 = math.asin(max(-1.0, min(1.0, u[2])))
            Rw = g.rot(yaw0, pitch0, o["roll"]) @ g.rx(o["tilt"] * math.cos(o["tiltdir"])) \
                @ g.rz(o["tilt"] * math.sin(o["tiltdir"]))
            e["pos"] = centre
            e["ypr"] = g.euler_of(Rw)
            e["dims"] = [2 * a, max(0.05, o["thick"]), 2 * a * o["aspect"]]
        occ.append(e)
    W["occ"] = occ
    return W


# ---------------------------------------------------------------------------------------------
# Scenic side
# ---------------------------------------------------------------------------------------------

_shape_cache = {}


def _ring_mesh():
    import trimesh

    return trimesh.creation.annulus(r_min=0.6, r_max=1.0, height=0.6)


def scenic_shape(name):
    from scenic.core import shapes

    if name == "box":
        return shapes.BoxShape()
    if name == "spheroid":
        return shapes.SpheroidShape()
    if name == "cylinder":
        return shapes.CylinderShape()
    if name == "cone":
        return shapes.ConeShape()
    if name == "ring":
        return shapes.MeshShape(_ring_mesh())
    raise ValueError(name)


def unit_mesh(name):
    """(vertices, faces) of the unit mesh of a convex built-in shape (trusted data)."""
    if name not in _shape_cache:
        m = scenic_shape(name).mesh
        V = np.array(m.vertices, float)
        F = np.array(m.faces, int)
        if not (np.allclose(V.min(axis=0), -0.5, atol=1e-9) and np.allclose(V.max(axis=0), 0.5, atol=1e-9)):
            raise core.HarnessError(f"unit mesh of {name} is not centred with unit extents")
        _shape_cache[name] = (V, F)
    return _shape_cache[name]


class Config:
    """One concrete configuration (base or rigidly moved): Scenic objects + oracle geometry."""

    def __init__(self, W, motion=None):
        from scenic.core.object_types import Object, OrientedPoint, Point
        from scenic.core.vectors import Orientation, Vector

        self.W = W
        if motion is None:
            Q, T = np.eye(3), np.zeros(3)
        elif W["kind"] == "Point":
            # a Point has no orientation: its rays are laid out in world axes, so only a
            # translation maps the sampled configuration onto itself
            motion = dict(motion, ypr=[0.0, 0.0, 0.0])
            Q, T = np.eye(3), np.array(motion["t"], float)
        else:
            Q, T = g.rot(*motion["ypr"]), np.array(motion["t"], float)
        self.Q, self.T, self.motion = Q, T, motion

        def mv(p):
            return Q @ p + T

        def orient(ypr):
            if motion is None:
                return {"yaw": ypr[0], "pitch": ypr[1], "roll": ypr[2]}
            if motion["mode"] == "parent":
                return {"parentOrientation": Orientation.fromEuler(*motion["ypr"]),
                        "yaw": ypr[0], "pitch": ypr[1], "roll": ypr[2]}
            y, p, r = g.euler_of(Q @ g.rot(*ypr))
            return {"yaw": y, "pitch": p, "roll": r}

        self.kind = W["kind"]
        self.pos = mv(W["pos"])
        self.R = Q @ W["R"] if self.kind != "Point" else np.eye(3)
        self.cam = mv(W["cam"])
        self.view = g.View(self.cam, self.R, W["h"], W["v"], W["vd"])
        ray = W["ray"]
        props = {"position": tuple(self.pos), "visibleDistance": W["vd"]}
        if ray["mode"] == "count":
            props["viewRayCount"] = (ray["c"][0], ray["c"][1])
        else:
            props["viewRayDensity"] = ray["d"]
            props["viewRayDistanceScaling"] = bool(ray.get("scale"))
        if self.kind == "Point":
            self.viewer = Point._with(**props)
        else:
            props.update(orient(W["ypr"]))
            props["viewAngles"] = (W["h"], W["v"])
            if self.kind == "OrientedPoint":
                self.viewer = OrientedPoint._with(**props)
            else:
                props.update(cameraOffset=tuple(W["camoff"]), width=W["dims"][0],
                             length=W["dims"][1], height=W["dims"][2])
                self.viewer = Object._with(**props)

        def make_obj(e):
            p = mv(e["pos"])
            kw = dict(position=tuple(p), width=e["dims"][0], length=e["dims"][1],
                      height=e["dims"][2], shape=scenic_shape(e["shape"]))
            kw.update(orient(e["ypr"]))
            obj = Object._with(**kw)
            solid = None
            if e["shape"] != "ring":
                V, F = unit_mesh(e["shape"])
                solid = g.Solid(V, F, e["dims"], Q @ g.rot(*e["ypr"]), p)
            return {"obj": obj, "solid": solid, "pos": p,
                    "r_bound": 0.5 * float(np.linalg.norm(e["dims"]))}

        self.targets = []
        for e in W["targets"]:
            p = mv(e["pos"])
            if e["kind"] == "vector":
                t = {"obj": Vector(*p), "pos": p, "solid": None, "r_bound": 0.0}
            elif e["kind"] == "Point":
                t = {"obj": Point._with(position=tuple(p)), "pos": p, "solid": None, "r_bound": 0.0}
            elif e["kind"] == "OrientedPoint":
                t = {"obj": OrientedPoint._with(position=tuple(p), **orient(e["ypr"])), "pos": p,
                     "solid": None, "r_bound": 0.0}
            else:
                t = make_obj(e)
            t["kind"] = e["kind"]
            t["shape"] = e.get("shape")
            self.targets.append(t)
        self.occ = [make_obj(e) for e in W["occ"]]
        self.notes = []

    # -- implementation under test ---------------------------------------------------------
    def impl(self, i, S):
        occ = tuple(self.occ[j]["obj"] for j in sorted(S))
        return bool(self.viewer.canSee(self.targets[i]["obj"], occludingObjects=occ))

    # -- oracle ------------------------------------------------------------------------------
    def irrelevant(self, i, j):
        t, o = self.targets[i], self.occ[j]
        return g.cone_disjoint(self.cam, t["pos"], t["r_bound"], o["pos"], o["r_bound"])

    def point_expect(self, p, S):
        """(True/False/None, why) for a point target at p with occluder set S."""
        c = self.view.classify(p)
        if c == "near":
            return None, "near-boundary"
        if c == "out":
            return False, "outside-view-volume"
        return self._segment_free(self.cam, p, S)

    def _segment_free(self, a, b, S):
        for j in sorted(S):
            o = self.occ[j]
            if g.cone_disjoint(a, b, 0.0, o["pos"], o["r_bound"]):
                continue
            if o["solid"] is None:
                return None, "unjudged:nonconvex-occluder"
            if o["solid"].contains(a, eps=1e-6 * (1 + o["solid"].scale)):
                return None, "unjudged:camera-in-occluder"
            r = o["solid"].segment(a, b)
            if r == "near":
                return None, "near-boundary"
            if r == "hit":
                return False, "occluded"
        return True, "visible"

    def defect_model_point(self, p, S):
        """Verdict of the reference model with the switch 'the target is rotated about the
        world origin instead of about the camera' (q = R^T p - cam) turned on."""
        d = float(np.linalg.norm(p - self.cam))
        if abs(d - self.view.vd) <= 1e-6 * max(d, self.view.vd):
            return None
        if d > self.view.vd:
            return False
        q = self.R.T @ p - self.cam
        nq = float(np.linalg.norm(q))
        if nq < 1e-9:
            return None
        c = self.view.classify_local(q / nq * (0.5 * self.view.vd))
        if c == "near":
            return None
        if c == "out":
            return False
        r, _ = self._segment_free(self.cam, self.cam + self.R @ (q / nq) * d, S)
        return r

    def object_expect(self, i, S, spacing):
        t = self.targets[i]
        if self.view.sphere(t["pos"], t["r_bound"]) == "outside":
            return False, "outside-view-volume"
        for j in sorted(S):
            o = self.occ[j]
            if o["solid"] is not None and o["solid"].covers_cone(self.cam, t["pos"], t["r_bound"]):
                if np.linalg.norm(o["pos"] - self.cam) > np.linalg.norm(t["pos"] - self.cam):
                    self.notes.append("covered-by-occluder-centred-farther-than-target")
                return False, "covered"
        if t["solid"] is None:
            return None, "unjudged:nonconvex-target"
        sol = t["solid"]
        if sol.contains(self.cam, eps=1e-6 * (1 + sol.scale)):
            return None, "unjudged:camera-in-target"
        # balls inside the (convex) target: centred on it, or shifted towards the camera
        to_cam = self.cam - t["pos"]
        dc = float(np.linalg.norm(to_cam))
        why = "unjudged:partial"
        for lam in (0.0, 0.25, 0.5, 0.75):
            c = t["pos"] + to_cam / dc * min(lam * t["r_bound"], 0.9 * dc)
            r_in = 0.98 * float(np.min(sol.off - sol.n @ c))
            if r_in <= 0:
                continue
            d = float(np.linalg.norm(c - self.cam))
            if d <= r_in * 1.01 or self.view.sphere(c, r_in) != "inside":
                continue
            if 2 * math.asin(r_in / d) < SPAN_MIN * spacing:
                why = "unjudged:small-target"
                continue
            alt = g.az_alt(self.view.local(c))[1]
            if abs(alt) + math.asin(r_in / d) > math.radians(80):
                why = "unjudged:near-pole"
                continue
            if not all(self.irrelevant(i, j) for j in S):
                return None, "unjudged:occluder-may-matter"
            return True, "substantial-part-inside" + ("" if lam == 0.0 else "(off-centre)")
        return None, why


# ---------------------------------------------------------------------------------------------
# compiled programs (f)
# ---------------------------------------------------------------------------------------------

def _num(x):
    return repr(float(x))


def _tup(p):
    return "(" + ", ".join(_num(x) for x in p) + ")"


SHAPE_SRC = {"box": "BoxShape()", "spheroid": "SpheroidShape()", "cylinder": "CylinderShape()",
             "cone": "ConeShape()",
             "ring": "MeshShape(trimesh.creation.annulus(r_min=0.6, r_max=1.0, height=0.6))"}


def program_text(W, stmts, extras=None, tail=()):
    """stmts: list of (target index, form, positive: bool); extras: object name -> additional
    specifiers; tail: lines appended after the requirements."""
    spec = {}
    extras = extras or {}
    reqs = []
    vname = "ego" if W["kind"] == "Object" else "vw"
    for i, form, positive in stmts:
        if form == "cansee":
            e = W["targets"][i]
            tgt = _tup(e["pos"]) if e["kind"] == "vector" else f"t{i}"
            reqs.append(f"require {vname} can see {tgt}" if positive
                        else f"require not ({vname} can see {tgt})")
        elif form == "visfrom":
            spec[i] = f"visible from {vname}" if positive else f"not visible from {vname}"
        elif form == "vis":
            spec[i] = "visible" if positive else "not visible"
        elif form == "reqvis":
            assert positive
            spec[i] = "with requireVisible True"
    lines = ["import trimesh"]
    ray = W["ray"]
    vp = f"at {_tup(W['pos'])}, with visibleDistance {_num(W['vd'])}"
    if ray["mode"] == "count":
        vp += f", with viewRayCount ({ray['c'][0]}, {ray['c'][1]})"
    else:
        vp += f", with viewRayDensity {_num(ray['d'])}, with viewRayDistanceScaling {bool(ray.get('scale'))}"
    if W["kind"] != "Point":
        y, p, r = W["ypr"]
        vp += (f", with yaw {_num(y)}, with pitch {_num(p)}, with roll {_num(r)}, "
               f"with viewAngles ({_num(W['h'])}, {_num(W['v'])})")
    if W["kind"] == "Object":
        vp += (f", with cameraOffset {_tup(W['camoff'])}, with width {_num(W['dims'][0])}, "
               f"with length {_num(W['dims'][1])}, with height {_num(W['dims'][2])}, "
               f"with allowCollisions True")
    lines.append(f"{vname} = new {W['kind']} {vp}")

    def obj_line(name, e, extra):
        y, p, r = e["ypr"]
        s = (f"{name} = new Object at {_tup(e['pos'])}, with yaw {_num(y)}, with pitch {_num(p)}, "
             f"with roll {_num(r)}, with width {_num(e['dims'][0])}, with length {_num(e['dims'][1])}, "
             f"with height {_num(e['dims'][2])}, with shape {SHAPE_SRC[e['shape']]}, "
             f"with allowCollisions True, with occluding {e['occluding']}, "
             f"with regionContainedIn everywhere")
        return s + (", " + extra if extra else "")

    for j, e in enumerate(W["occ"]):
        lines.append(obj_line(f"o{j}", e, extras.get(f"o{j}", "")))
    for i, e in enumerate(W["targets"]):
        extra = ", ".join(x for x in (spec.get(i, ""), extras.get(f"t{i}", "")) if x)
        if e["kind"] == "Object":
            lines.append(obj_line(f"t{i}", e, extra))
        elif e["kind"] == "Point":
            lines.append(f"t{i} = new Point at {_tup(e['pos'])}, with regionContainedIn everywhere"
                         + (", " + extra if extra else ""))
        elif e["kind"] == "OrientedPoint":
            y, p, r = e["ypr"]
            lines.append(f"t{i} = new OrientedPoint at {_tup(e['pos'])}, with yaw {_num(y)}, "
                         f"with pitch {_num(p)}, with roll {_num(r)}, with regionContainedIn everywhere"
                         + (", " + extra if extra else ""))
    lines.extend(reqs)
    lines.extend(tail)
    return "\n".join(lines) + "\n"


def run_program(src):
    """'accepted' / 'rejected' for a program without random values."""
    import random

    import scenic
    from scenic.core.distributions import RejectionException
    from scenic.core.errors import InvalidScenarioError

    random.seed(0)
    np.random.seed(0)
    try:
        sc = scenic.scenarioFromString(src, mode2D=False)
    except InvalidScenarioError as e:
        if "is not visible from ego" in str(e):  # static form of the requireVisible requirement
            return "rejected"
        raise
    try:
        sc.generate(maxIterations=1, verbosity=0)
    except RejectionException:
        return "rejected"
    return "accepted"


# ---------------------------------------------------------------------------------------------
# judge
# ---------------------------------------------------------------------------------------------

def _subsets(case, n):
    full = frozenset(range(n))
    sets = [frozenset()]
    if n:
        if n >= 2:
            mask = case.get("sub", 1) % (2 ** n - 2) + 1  # non-empty proper subset
            sets.append(frozenset(j for j in range(n) if mask >> j & 1))
        sets.append(full)
    return sets


def _cost(W, cfg, i):
    """Worst-case number of rays cast for target i (whole window if the target may straddle)."""
    t = cfg.targets[i]
    d = float(np.linalg.norm(t["pos"] - cfg.cam))
    total = g.window_rays(W["ray"], W["h"], W["v"], d)
    if t["kind"] != "Object":
        return 0
    if d > 1.2 * t["r_bound"]:
        rho = math.asin(t["r_bound"] / d)
        alt = abs(g.az_alt(cfg.view.local(t["pos"]))[1])
        if alt + rho < math.radians(85):
            frac = min(1.0, (2 * rho / math.cos(alt + rho)) / W["h"]) * min(1.0, 2 * rho / W["v"])
            return total * frac
    return total


def judge(case):
    g.selfcheck()
    out = core.Outcome()
    W = derive(case)
    vk = W["kind"]
    rot_axes = sum(1 for a in W["ypr"] if abs(math.remainder(a, g.TAU)) >= D20) if vk != "Point" else 0
    out.nontrivial = float(np.linalg.norm(W["pos"])) >= 5 and rot_axes >= 2
    out.cls(f"viewer:{vk}", f"rot-axes:{rot_axes}",
            "h:" + ("full" if W["h"] >= g.TAU - 1e-9 else "wide" if W["h"] > math.pi else "narrow"
                    if W["h"] < math.radians(40) else "mid"),
            "v:" + ("full" if W["v"] >= math.pi - 1e-9 else "narrow" if W["v"] < math.radians(40) else "mid"),
            "ray:" + (W["ray"]["mode"] + ("+scale" if W["ray"].get("scale") else "")),
            f"occluders:{len(W['occ'])}")
    if vk == "Object" and float(np.linalg.norm(W["camoff"])) > 0:
        out.cls("cameraOffset")

    base = Config(W)
    moved = Config(W, case["motion"])
    out.cls("motion:" + case["motion"]["mode"])
    nocc = len(W["occ"])
    sets = _subsets(case, nocc)

    def call(cfg, i, S, cell):
        try:
            return cfg.impl(i, S)
        except core.CaseTimeout:
            raise
        except Exception as e:  # the implementation raised on a documented-valid input
            ray = W["ray"]["mode"] + ("+scale" if W["ray"].get("scale") else "")
            out.fail(f"{cell.split('/')[0]}:ray-{ray}|exception:{core.exc_signature(e)}", error=repr(e)[:300],
                     target=case["targets"][i], moved=cfg.motion is not None)
            return None

    for i, te in enumerate(W["targets"]):
        pointlike = te["kind"] != "Object"
        tk = "vector-target" if te["kind"] == "vector" else "point-target" if pointlike else "object-target"
        cell = tk + "/" + vk
        tcase = case["targets"][i]
        out.cls(f"target:{te['kind']}" + (f":{te['shape']}" if not pointlike else ""),
                f"place:{tcase['place']}")
        cost = 0 if pointlike else max(_cost(W, base, i), _cost(W, moved, i))
        if cost > MAX_RAYS:
            out.cls("skipped:cost")
            continue
        tsets = sets
        if cost > MAX_RAYS_OCC and nocc:
            out.cls("skipped:cost-with-occluders")
            tsets = sets[:1]
        d = float(np.linalg.norm(base.targets[i]["pos"] - base.cam))
        spacing = g.ray_spacing(W["ray"], W["h"], W["v"], d)
        res = {}       # (cfgname, S) -> impl verdict
        exp = {}       # (cfgname, S) -> (expected, why)
        dmv = {}       # (cfgname, S) -> verdict of the rotate-about-origin defect model / None
        truth = {}     # (cfgname, S) -> true visibility of the target's position / None
        cfgs = {"base": base, "moved": moved}
        for cname, cfg in cfgs.items():
            for S in tsets:
                if cname == "moved" and S not in (tsets[0], tsets[-1]):
                    continue
                r = call(cfg, i, S, cell)
                if r is None:
                    continue
                key = (cname, S)
                res[key] = r
                p = cfg.targets[i]["pos"]
                if pointlike:
                    exp[key] = cfg.point_expect(p, S)
                else:
                    exp[key] = cfg.object_expect(i, S, spacing)
                out.cls(*cfg.notes)
                del cfg.notes[:]
                out.cls(("pt:" if pointlike else "obj:") + exp[key][1])
                posed = cfg.kind != "Point" and not np.allclose(cfg.R, np.eye(3), atol=1e-9) \
                    and float(np.linalg.norm(cfg.cam)) > 1e-6
                if posed:
                    truth[key] = exp[key][0] if pointlike else cfg.point_expect(p, S)[0]
                    dmv[key] = cfg.defect_model_point(p, S)
        # The defect model "the point branch rotates the target about the world origin" is
        # accepted as the explanation only if it reproduces *every* observation made on this
        # target (point targets: all verdicts; object targets: visible whenever the model sees
        # the centre) and differs from the truth somewhere.
        differs = any(dmv[k] is not None and truth[k] is not None and dmv[k] != truth[k] for k in dmv)
        undecided = any(dmv[k] is None for k in dmv)
        if pointlike:
            explains = all(dmv[k] is None or dmv[k] == res[k] for k in dmv)
        else:
            explains = all(res[k] for k in dmv if dmv[k] is True)
        active = bool(dmv) and explains and differs
        for key, r in res.items():
            e, why = exp[key]
            if e is None or r == e:
                continue
            cname, S = key
            cfg = cfgs[cname]
            sig = f"{cell}|" + ("reported-visible:" if r else "reported-not-visible:") + why
            dm = dmv.get(key, "n/a")
            if pointlike and active and dm == r:
                sig = f"{tk}|as-if-target-rotated-about-origin"
            elif pointlike and explains and dm is None:
                sig = f"{tk}|possibly-rotated-about-origin(defect-model-undecided)"
            elif not pointlike and r and active and dm is True and truth[key] is False:
                # the object branch first asks the point branch about the target's centre
                sig = f"{tk}|centre-check-as-if-rotated-about-origin"
            elif not pointlike and r and explains and dm is None:
                sig = f"{tk}|centre-check-possibly-rotated-about-origin(defect-model-undecided)"
            out.fail(sig, viewer=case["viewer"], target=tcase,
                     target_world=list(map(float, cfg.targets[i]["pos"])),
                     camera=list(map(float, cfg.cam)),
                     occluders=[W["occ"][j]["mode"] for j in sorted(S)], moved=cname == "moved",
                     expected=e, observed=r, why=why)
        mcell, tag = (tk, ":while-point-branch-is-origin-dependent") if active else (cell, "")
        # ---- metamorphic: monotonicity in the occluder set, irrelevant occluders
        for cname, cfg in (("base", base), ("moved", moved)):
            have = [S for S in tsets if (cname, S) in res]
            for a in have:
                for b in have:
                    if a < b and res[(cname, b)] and not res[(cname, a)]:
                        out.fail(f"{mcell}|more-occluders-make-visible{tag}", viewer=case["viewer"],
                                 target=tcase, small=sorted(a), big=sorted(b), moved=cname == "moved")
            if (cname, frozenset()) in res:
                for S in have:
                    if S and all(cfg.irrelevant(i, j) for j in S):
                        out.cls("irrelevant-occluders")
                        if res[(cname, S)] != res[(cname, frozenset())]:
                            out.fail(f"{mcell}|irrelevant-occluder-changes-verdict{tag}",
                                     viewer=case["viewer"], target=tcase, occluders=sorted(S),
                                     without=res[(cname, frozenset())], with_=res[(cname, S)],
                                     moved=cname == "moved")
        # ---- metamorphic: rigid motion (object targets without an asserted verdict)
        if not pointlike:
            for S in ([tsets[0], tsets[-1]] if len(tsets) > 1 else [tsets[0]]):
                kb, km = ("base", S), ("moved", S)
                if kb in res and km in res and res[kb] != res[km] \
                        and exp[kb][0] is None and exp[km][0] is None:
                    if _stable(W, case, i, S, res[kb], res[km]):
                        out.fail(f"{mcell}|verdict-changes-under-rigid-motion{tag}",
                                 viewer=case["viewer"], target=tcase, occluders=sorted(S),
                                 base=res[kb], moved=res[km], motion=case["motion"])
                    else:
                        out.cls("near-boundary:rigid-motion-unstable")
                elif kb in res and km in res:
                    out.cls("rigid-motion-agrees")

    # ---- (e) visibleRegion.containsPoint
    for cname, cfg in (("base", base), ("moved", moved)):
        try:
            region = cfg.viewer.visibleRegion
        except core.CaseTimeout:
            raise
        except Exception as e:
            out.fail(f"visibleRegion/{vk}|exception:{core.exc_signature(e)}", viewer=case["viewer"],
                     error=repr(e)[:300])
            break
        from scenic.core.vectors import Vector

        for i, t in enumerate(cfg.targets):
            c_fine = cfg.view.classify(t["pos"], ang_band=REGION_ANG, rel_band=REGION_REL)
            if c_fine == "near":
                out.cls("region:near-boundary")
                continue
            got = bool(region.containsPoint(Vector(*t["pos"])))
            out.cls("region:" + c_fine)
            if got != (c_fine == "in"):
                out.fail(f"visibleRegion/{vk}|" + ("contains-point-outside-view-volume" if got
                                                    else "excludes-point-inside-view-volume"),
                         viewer=case["viewer"], point=list(map(float, t["pos"])),
                         camera=list(map(float, cfg.cam)), moved=cname == "moved")

    # ---- (f) compiled programs
    _programs(case, W, base, out)
    # ---- (g) histories: the same viewer asked again and again while the world moves
    _dynamic(case, W, out)
    return out


def _stable(W, case, i, S, rb, rm):
    """Re-evaluate both configurations with the target scaled by 1 -/+ 1e-3; the disagreement is
    reported only if each configuration's verdict is insensitive to that."""
    import copy

    for k in (1 - 1e-3, 1 + 1e-3):
        c2 = copy.deepcopy(case)
        c2["targets"][i]["dims"] = [x * k for x in c2["targets"][i]["dims"]]
        W2 = derive(c2)
        W2["occ"] = W["occ"]  # occluders stay exactly where they were
        for motion, want in ((None, rb), (case["motion"], rm)):
            cfg = Config(W2, motion)
            try:
                if cfg.impl(i, S) != want:
                    return False
            except core.CaseTimeout:
                raise
            except Exception:
                return False
    return True


def _programs(case, W, base, out):
    vk = W["kind"]

    def occluders_for(i):
        occ = [o["obj"] for o, e in zip(base.occ, W["occ"]) if e["occluding"]]
        occ += [t["obj"] for k, (t, e) in enumerate(zip(base.targets, W["targets"]))
                if e["kind"] == "Object" and e["occluding"] and k != i]
        return tuple(occ)
    stmts = []
    used = set()
    for s in case["prog"]["stmts"]:
        i = s["t"] % len(W["targets"])
        if i in used:
            continue
        used.add(i)
        form = s["form"]
        kind = W["targets"][i]["kind"]
        if kind == "vector":
            form = "cansee"
        if form in ("vis", "reqvis") and vk != "Object":
            form = "visfrom"
        if form == "reqvis" and kind != "Object":
            form = "vis"
        stmts.append((i, form))
    # occluders seen by the compiled forms: every occluding Object of the scenario except the
    # viewer and the target (operators.rst / visibility.rst)
    direct = []
    for i, form in stmts:
        if W["targets"][i]["kind"] == "Object" and _cost(W, base, i) > MAX_RAYS_PROG:
            out.cls("prog:skipped-cost")
            return
        try:
            direct.append(bool(base.viewer.canSee(base.targets[i]["obj"],
                                                  occludingObjects=occluders_for(i))))
        except core.CaseTimeout:
            raise
        except Exception:
            out.cls("prog:direct-raises")
            return
    agree = [(i, f, d) for (i, f), d in zip(stmts, direct) if not (f == "reqvis" and not d)]
    nspec = sum(1 for _, f, _ in agree if f != "cansee")
    out.cls(f"prog:stmts={len(stmts)}", f"prog:specifiers={nspec}")
    for (i, f), d in zip(stmts, direct):
        out.cls(f"prog:{f}:{'visible' if d else 'not-visible'}")

    def run(st_list, what):
        src = program_text(W, st_list)
        try:
            return run_program(src), src
        except core.CaseTimeout:
            raise
        except Exception as e:
            out.fail(f"compiled/{what}|exception:{core.exc_signature(e)}", source=src,
                     error=repr(e)[:300])
            return None, src

    def model_accepts(st_list):
        """Reference model with the switch 'only the first requirement created from a visibility
        specifier receives the occluders' (visible ones are created first, in program order)."""
        specs = sorted((s for s in st_list if s[1] in ("visfrom", "vis")),
                       key=lambda s: (not s[2], s[0]))
        try:
            for n_, (i, f, positive) in enumerate(specs):
                occ = occluders_for(i) if n_ == 0 else ()
                if bool(base.viewer.canSee(base.targets[i]["obj"], occludingObjects=occ)) != positive:
                    return False
        except core.CaseTimeout:
            raise
        except Exception:
            return None
        return True

    forms = "+".join(sorted({f for _, f, _ in agree})) or "none"
    if agree:
        r, src = run(agree, forms)
        if r == "rejected":
            alone_bad = []
            for s in agree:
                r1, src1 = run([s], s[1])
                if r1 == "rejected":
                    alone_bad.append(s[1])
                    out.fail(f"compiled/{s[1]}|rejected-although-direct-API-agrees", source=src1,
                             direct=s[2])
            if not alone_bad:
                tag = ":as-if-only-first-specifier-sees-occluders" if model_accepts(agree) is False else ""
                out.fail("compiled/combination|rejected-although-each-statement-alone-is-accepted" + tag,
                         source=src, direct=[s[2] for s in agree])
    k = case["prog"]["flip"] % len(stmts)
    i, f, d = stmts[k][0], stmts[k][1], direct[k]
    if f == "reqvis" and d:
        return  # there is no negative form of requireVisible
    flipped = (i, f, not d) if f != "reqvis" else (i, f, True)
    others = [s for s in agree if s[0] != i]
    r, src = run(others + [flipped], f)
    if r == "accepted":
        r1, src1 = run([flipped], f)
        if r1 == "accepted":
            out.fail(f"compiled/{f}|accepted-although-direct-API-says-" +
                     ("visible" if d else "not-visible"), source=src1, direct=d)
        elif r1 == "rejected":
            tag = ":as-if-only-first-specifier-sees-occluders" \
                if model_accepts(others + [flipped]) is True else ""
            out.fail("compiled/combination|accepted-although-one-statement-alone-is-rejected" + tag,
                     source=src, direct=d, form=f)


# ---------------------------------------------------------------------------------------------
# (g) histories: one viewer object asked repeatedly during a dynamic simulation
# ---------------------------------------------------------------------------------------------

MAX_RAYS_DYN = 3000
_SWAP = {"cover": "beside", "beside": "cover", "partial": "cover", "behind": "cover"}
_simcls = []


def _simulator():
    """DummySimulator whose objects move by their own `c17step` property at every time step
    (objects without the property stay where they are).  Like DummySimulation.step, the new
    position is assigned to the object and then reported by getProperties."""
    if not _simcls:
        from scenic.core.simulators import DummySimulation, DummySimulator
        from scenic.core.vectors import Vector

        class StepSimulation(DummySimulation):
            def step(self):
                for obj in self.objects:
                    d = getattr(obj, "c17step", None)
                    if d is not None:
                        obj.position = obj.position + Vector(*d)

        class StepSimulator(DummySimulator):
            def createSimulation(self, scene, **kwargs):
                return StepSimulation(scene, drift=0, **kwargs)

        _simcls.append(StepSimulator)
    return _simcls[0]()


def run_dynamic(src, steps):
    import random

    import scenic

    random.seed(0)
    np.random.seed(0)
    sc = scenic.scenarioFromString(src, mode2D=False)
    scene, _ = sc.generate(maxIterations=1, verbosity=0)
    result = _simulator().simulate(scene, maxSteps=steps, maxIterations=1, verbosity=0)
    if result is None:
        raise core.HarnessError("C17 dynamic program without requirements was rejected")
    return result.records


def _dynamic(case, W, out):
    """A compiled program in which Object targets and occluders move by a constant step while
    `record (viewer can see target)` asks the *same* viewer object at every time step.  Every
    step is a static configuration of its own: judged by the certificates of the static cells
    (decisive steps only) and compared with a fresh evaluation on newly built objects at the
    same positions (the answer must not depend on what was asked before)."""
    import copy

    dyn = case.get("dyn")
    if not dyn:
        return
    vk = W["kind"]
    N = int(dyn["steps"])
    nt = len(W["targets"])
    objs = [i for i, e in enumerate(W["targets"]) if e["kind"] == "Object"]
    rec, tstep = [], {}
    if objs and dyn["move_target"] and nt > 1:
        i = objs[dyn["t"] % len(objs)]
        j = (i + 1 + dyn["to"] % (nt - 1)) % nt
        rec.append(i)
        tstep[i] = (W["targets"][j]["pos"] - W["targets"][i]["pos"]) / N
    c2 = copy.deepcopy(case)
    for o, flag in zip(c2["occluders"], dyn["occ"]):
        if flag and o["mode"] in _SWAP:
            o["mode"] = _SWAP[o["mode"]]
    W2 = derive(c2)
    ostep = {j: (W2["occ"][j]["pos"] - W["occ"][j]["pos"]) / N for j in range(len(W["occ"]))
             if case["occluders"][j]["mode"] != c2["occluders"][j]["mode"]}
    if not tstep and not ostep:
        out.cls("dyn:nothing-moves")
        return
    also = dyn["also"] % nt
    for j in sorted(ostep):  # prefer the target a moving (and occluding) wall was built for
        if W["occ"][j]["occluding"]:
            also = case["occluders"][j]["tgt"] % nt
            break
    if also not in rec:
        rec.append(also)

    def path(p0, d):
        ps = [np.array(p0, float)]
        for _ in range(N):
            ps.append(ps[-1] + d if d is not None else ps[-1])
        return ps

    tpath = {a: path(W["targets"][a]["pos"], tstep.get(a)) for a in rec}
    opath = {j: path(e["pos"], ostep.get(j)) for j, e in enumerate(W["occ"])}
    # cost: drop recorded targets which may need too many rays at some step
    keep = []
    for a in rec:
        te = W["targets"][a]
        cost = 0
        if te["kind"] == "Object":
            for k in range(N + 1):
                c0 = Config(dict(W, targets=[dict(te, pos=tpath[a][k])], occ=[]))
                cost = max(cost, _cost(W, c0, 0))
        if cost > MAX_RAYS_DYN:
            out.cls("dyn:skipped-cost")
        else:
            keep.append(a)
    rec = keep
    if not rec or not (ostep or any(a in tstep for a in rec)):
        out.cls("dyn:nothing-left")
        return

    vname = "ego" if vk == "Object" else "vw"
    extras, tail = {}, []
    for r, a in enumerate(rec):
        e = W["targets"][a]
        if a in tstep:
            extras[f"t{r}"] = f"with c17step {_tup(tstep[a])}"
        tgt = _tup(e["pos"]) if e["kind"] == "vector" else f"t{r}"
        tail.append(f"record ({vname} can see {tgt}) as vis{r}")
        if a in tstep:
            tail.append(f"record t{r}.position as pos_t{r}")
    for j in sorted(ostep):
        extras[f"o{j}"] = f"with c17step {_tup(ostep[j])}"
        tail.append(f"record o{j}.position as pos_o{j}")
    src = program_text(dict(W, targets=[W["targets"][a] for a in rec]), [], extras, tail)
    try:
        records = run_dynamic(src, N)
    except core.CaseTimeout:
        raise
    except core.HarnessError:
        raise
    except Exception as e:
        out.fail(f"dynamic/{vk}|exception:{core.exc_signature(e)}", source=src, error=repr(e)[:300])
        return
    out.cls("history:viewer-reused", f"dyn:viewer:{vk}", f"dyn:steps={N}")
    if tstep:
        out.cls("dyn:target-moves")
    if ostep:
        out.cls("dyn:occluder-moves")

    # positions the simulation reported, against the harness's own arithmetic
    exact = [True] * (N + 1)
    for name, ps in [(f"pos_t{r}", tpath[a]) for r, a in enumerate(rec) if a in tstep] + \
                    [(f"pos_o{j}", opath[j]) for j in sorted(ostep)]:
        got = records[name]
        if len(got) != N + 1:
            raise core.HarnessError(f"C17 dynamic: {len(got)} records of {name} for {N} steps")
        for (t, v), p in zip(got, ps):
            q = np.array([v.x, v.y, v.z], float)
            if not np.allclose(q, p, rtol=1e-9, atol=1e-9):
                raise core.HarnessError(f"C17 dynamic: {name} at step {t} is {q}, expected {p}")
            if not np.array_equal(q, p):
                exact[t] = False

    for r, a in enumerate(rec):
        te = W["targets"][a]
        pointlike = te["kind"] != "Object"
        tk = "vector-target" if te["kind"] == "vector" else "point-target" if pointlike else "object-target"
        cell = tk + "/" + vk
        out.cls(f"dyn:target:{te['kind']}")
        others = [(e, opath[j]) for j, e in enumerate(W["occ"]) if e["occluding"]]
        others += [(W["targets"][b], tpath[b]) for b in rec
                   if b != a and W["targets"][b]["kind"] == "Object" and W["targets"][b]["occluding"]]
        got = records[f"vis{r}"]
        if [t for t, _ in got] != list(range(N + 1)):
            raise core.HarnessError(f"C17 dynamic: record times {[t for t, _ in got]} for {N} steps")
        obs = [bool(v) for _, v in got]
        exp, fresh = [], []
        for k in range(N + 1):
            cfg = Config(dict(W, targets=[dict(te, pos=tpath[a][k])],
                              occ=[dict(e, pos=ps[k]) for e, ps in others]))
            S = frozenset(range(len(cfg.occ)))
            p = cfg.targets[0]["pos"]
            if pointlike:
                exp.append(cfg.point_expect(p, S))
            else:
                d = float(np.linalg.norm(p - cfg.cam))
                exp.append(cfg.object_expect(0, S, g.ray_spacing(W["ray"], W["h"], W["v"], d)))
            out.cls("dyn:step:" + exp[-1][1])
            f = None
            if exact[k]:
                try:
                    f = cfg.impl(0, S)
                except core.CaseTimeout:
                    raise
                except Exception:
                    out.cls("dyn:fresh-raises")
            else:
                out.cls("dyn:position-rounding-differs")
            fresh.append(f)
        decisive = {e for e, _ in exp if e is not None}
        if len(decisive) == 2:
            out.cls("dyn:answer-changes-during-run")
        if len({f for f in fresh if f is not None}) == 2:
            out.cls("dyn:fresh-answer-changes-during-run")
        if len(set(obs)) == 2:
            out.cls("dyn:observed-answer-changes")
        frozen = len(set(obs)) == 1 and (len(decisive) == 2 or len({f for f in fresh if f is not None}) == 2)
        for k in range(N + 1):
            (e, why), f, o = exp[k], fresh[k], obs[k]
            detail = dict(source=src, step=k, expected=e, fresh=f, observed=o, history=obs,
                          why=why, viewer=case["viewer"])
            word = "reported-visible:" if o else "reported-not-visible:"
            if e is not None and o != e and f == o:
                # the static verdict is wrong as well: same cell and symptom as the static part
                out.fail(f"{cell}|{word}{why}", **detail)
            elif frozen and ((e is not None and o != e) or (f is not None and o != f)):
                # one root cause whatever the target and the certificate: one signature per
                # viewer kind and direction
                out.fail(f"dynamic/{vk}|{word}answer-frozen-since-first-step", **detail)
            elif e is not None and o != e:
                out.fail(f"dynamic:{cell}|{word}{why}", **detail)
            elif f is not None and o != f:
                out.fail(f"dynamic:{cell}|{word}fresh-objects-at-the-same-positions-disagree",
                         **detail)
            elif e is not None:
                out.cls("dyn:step-judged")


def replay(case):
    return judge(case)


# ---------------------------------------------------------------------------------------------
# strategy
# ---------------------------------------------------------------------------------------------

def gen_case(seed):
    """The case generated from an integer seed (plain JSON data).  A private PRNG is used rather
    than one Hypothesis draw per parameter: Hypothesis biases the tail of long examples towards
    the simplest choice (measured: 36 % of cases without occluders instead of 14 %)."""
    import random

    rnd = random.Random(seed)
    U, ch = rnd.uniform, rnd.choice

    def angle20(hi=math.pi):
        return ch([-1.0, 1.0]) * U(D20 + 0.01, hi)

    kind = ch(["Object"] * 5 + ["OrientedPoint"] * 4 + ["Point"])
    pos = _vec(U(-math.pi, math.pi), U(-1.3, 1.3), U(5.0, 100.0))
    rc = ch(["3"] * 4 + ["2y", "2p", "2r"] * 2 + ["1", "0"])
    yaw = angle20() if rc in ("3", "2p", "2r") else U(-0.3, 0.3)
    pitch = angle20(ch([1.5, 1.5, math.pi])) if rc in ("3", "2y", "2r") else U(-0.3, 0.3)
    roll = angle20() if rc in ("3", "2y", "2p") else U(-0.3, 0.3)
    if rc == "1":
        yaw = angle20()
    if rc == "0":
        yaw = pitch = roll = 0.0
    rad = math.radians
    hc = ch(["narrow", "mid", "mid", "wide", "wide", "full"])
    h = {"narrow": (rad(5), rad(40)), "mid": (rad(40), rad(175)), "wide": (rad(185), rad(355)),
         "full": (g.TAU, g.TAU)}[hc]
    vc = ch(["narrow", "mid", "mid", "mid", "full"])
    v = {"narrow": (rad(5), rad(40)), "mid": (rad(40), rad(175)), "full": (math.pi, math.pi)}[vc]
    h, v = U(*h), U(*v)
    vd = U(5.0, 120.0)
    hdeg, vdeg = (360.0, 180.0) if kind == "Point" else (math.degrees(h), math.degrees(v))
    budget = U(1.5e3, 2e4)
    rmode = ch(["density", "density", "density", "scaled", "count"])
    dens = min(8.0, max(0.25, math.sqrt(budget / (hdeg * vdeg))))
    if rmode == "density":
        ray = {"mode": "density", "d": dens, "scale": False}
    elif rmode == "scaled":
        ray = {"mode": "density", "d": dens / vd, "scale": True}
    else:
        H = max(4, int(round(math.sqrt(budget * hdeg / vdeg))))
        ray = {"mode": "count", "c": [H, max(4, int(round(budget / H)))]}
    viewer = {"kind": kind, "pos": [float(x) for x in pos], "ypr": [yaw, pitch, roll], "va": [h, v],
              "vd": vd, "ray": ray}
    if kind == "Object":
        viewer["cam"] = [U(-2.0, 2.0) for _ in range(3)] if rnd.randrange(3) else [0.0, 0.0, 0.0]
        viewer["dims"] = [U(0.5, 4.0) for _ in range(3)]
    hh, vh = (math.pi, math.pi / 2) if kind == "Point" else (h / 2, v / 2)

    targets = []
    for _ in range(rnd.randint(2, 4)):
        tk = ch(["vector", "vector", "Point", "OrientedPoint", "Object", "Object", "Object",
                 "Object", "Object"])
        place = ch(["window", "window", "window", "ahead", "behind", "above", "anywhere", "edge"])
        lim = math.pi / 2 - 1e-3
        if place == "window":
            az, alt = U(-1.3, 1.3) * hh, U(-1.3, 1.3) * vh
        elif place == "ahead":
            az, alt = U(-0.6, 0.6) * hh, U(-0.6, 0.6) * vh
        elif place == "behind":
            az, alt = math.pi - U(-0.6, 0.6), U(-0.5, 0.5)
        elif place == "above":
            az, alt = U(-math.pi, math.pi), ch([-1, 1]) * U(1.15, lim)
        elif place == "anywhere":
            az, alt = U(-math.pi, math.pi), math.asin(U(-1.0, 1.0))
        elif rnd.random() < 0.5:
            az, alt = ch([-1, 1]) * hh + U(-0.06, 0.06), U(-0.9, 0.9) * vh
        else:
            az, alt = U(-0.9, 0.9) * hh, ch([-1, 1]) * vh + U(-0.06, 0.06)
        az = math.remainder(az, g.TAU)
        alt = max(-lim, min(lim, alt))
        dc = ch(["mid", "mid", "mid", "mid", "far", "near"])
        d = {"mid": U(0.08, 0.9) * vd, "far": U(0.9, 1.15) * vd, "near": U(0.5, 3.0)}[dc]
        t = {"kind": tk, "place": place, "loc": {"az": az, "alt": alt, "d": d}}
        if tk in ("Object", "OrientedPoint"):
            t["ypr"] = [U(-math.pi, math.pi) for _ in range(3)]
        if tk == "Object":
            t["shape"] = ch(["box", "box", "spheroid", "cylinder", "cone", "ring"])
            sc = ch(["big", "big", "sized", "sized", "small", "huge"])
            if sc == "sized":
                # comfortably more than SPAN_MIN nominal ray spacings across the inscribed ball
                sp = g.ray_spacing(ray, hh * 2, vh * 2, d)
                half = min(0.5 * SPAN_MIN * sp * U(1.15, 2.5), 0.9)
                rin = d * math.sin(half)
                k = {"cone": 4.6, "ring": 2.0}.get(t["shape"], 2.05)
                t["dims"] = [rin * k * U(1.0, 1.5) for _ in range(3)]
            else:
                basis = d * {"big": U(0.08, 0.5), "small": U(0.004, 0.04), "huge": U(0.8, 2.5)}[sc]
                t["dims"] = [basis * U(0.4, 1.6) for _ in range(3)]
            t["size"] = sc
            t["occluding"] = rnd.random() < 0.5
        targets.append(t)

    occluders = []
    for _ in range(ch([0, 1, 1, 2, 2, 3, 4])):
        mode = ch(["cover", "cover", "cover", "partial", "beside", "behind", "free"])
        o = {"mode": mode, "tgt": rnd.randrange(len(targets)), "occluding": ch([True, True, True, False])}
        if mode == "free":
            o["shape"] = ch(["box", "box", "spheroid", "cylinder", "cone", "ring"])
            o["loc"] = {"az": U(-math.pi, math.pi), "alt": U(-1.5, 1.5), "d": U(0.05, 1.0) * vd}
            o["ypr"] = [U(-math.pi, math.pi) for _ in range(3)]
            o["dims"] = [U(0.02, 0.4) * vd for _ in range(3)]
        else:
            o["shape"] = ch(["box", "box", "box", "cylinder", "spheroid"])
            o.update(f=U(0.15, 0.85), k=ch([U(1.6, 4.0), U(1.6, 4.0), U(4.0, 25.0)]), thick=U(0.05, 1.0), tilt=U(0.0, 0.4),
                     tiltdir=U(0.0, g.TAU), roll=U(-math.pi, math.pi), lat=[U(-1.0, 1.0), U(-1.0, 1.0)],
                     aspect=U(0.7, 1.5))
        occluders.append(o)

    motion = {"mode": ch(["parent", "euler"]), "ypr": [U(-math.pi, math.pi) for _ in range(3)],
              "t": [float(x) for x in _vec(U(-math.pi, math.pi), U(-1.3, 1.3), U(0.0, 150.0))]}
    prog = {"stmts": [{"t": rnd.randrange(4), "form": ch(["cansee", "visfrom", "visfrom", "vis", "reqvis"])}
                      for _ in range(rnd.randint(1, 3))],
            "flip": rnd.randrange(3)}
    case = {"viewer": viewer, "targets": targets, "occluders": occluders, "motion": motion,
            "sub": rnd.randrange(14), "prog": prog}
    # (g) drawn last, so that everything above is the same case as before this family existed;
    # Point / OrientedPoint viewers (not simulated objects) get a history more often
    if rnd.random() < (0.2 if kind == "Object" else 0.5):
        case["dyn"] = {"steps": rnd.randint(3, 5), "t": rnd.randrange(12), "to": rnd.randrange(12),
                       "move_target": rnd.random() < 0.8, "also": rnd.randrange(12),
                       "occ": [rnd.random() < 0.6 for _ in occluders]}
    return case


def cases(salt=0):
    """`salt` (the shard's seed) keeps shards from drawing the same small integers."""
    return st.integers(0, 2 ** 40).map(lambda k: gen_case((salt << 41) | k))


# ---------------------------------------------------------------------------------------------
# runner interface
# ---------------------------------------------------------------------------------------------

def _drop_target(case, k):
    import copy

    c = copy.deepcopy(case)
    n = len(c["targets"])
    if n <= 1:
        return None
    remap = {i: (i if i < k else i - 1) for i in range(n) if i != k}
    c["targets"].pop(k)
    occ = []
    for o in c["occluders"]:
        t = o["tgt"] % n
        if t != k:
            o["tgt"] = remap[t]
            occ.append(o)
    c["occluders"] = occ
    st_ = []
    for s_ in c["prog"]["stmts"]:
        t = s_["t"] % n
        if t != k:
            s_["t"] = remap[t]
            st_.append(s_)
    c["prog"]["stmts"] = st_ or [{"t": 0, "form": "cansee"}]
    return c


def _variants(case):
    import copy

    for k in range(len(case["targets"])):
        c = _drop_target(case, k)
        if c is not None:
            yield c
    for j in range(len(case["occluders"])):
        c = copy.deepcopy(case)
        c["occluders"].pop(j)
        yield c
    if len(case["prog"]["stmts"]) > 1:
        for j in range(len(case["prog"]["stmts"])):
            c = copy.deepcopy(case)
            c["prog"]["stmts"].pop(j)
            yield c
    if any(case["motion"]["ypr"]) or any(case["motion"]["t"]):
        c = copy.deepcopy(case)
        c["motion"] = {"mode": "euler", "ypr": [0.0, 0.0, 0.0], "t": [0.0, 0.0, 0.0]}
        yield c
    if case["viewer"].get("cam") and any(case["viewer"]["cam"]):
        c = copy.deepcopy(case)
        c["viewer"]["cam"] = [0.0, 0.0, 0.0]
        yield c
    if case.get("dyn"):
        c = copy.deepcopy(case)
        del c["dyn"]
        yield c


def minimise(case, sig, budget_s=30.0, timeout=60):
    """Greedy structural reduction of a failing case (drop targets, occluders, statements, the
    rigid motion, the camera offset) keeping the signature.  Cases are expanded from a PRNG seed,
    so Hypothesis's own shrinker has nothing useful to work on."""
    import time

    t_end = time.time() + budget_s
    best, best_detail = None, None
    cur = case
    progress = True
    while progress and time.time() < t_end:
        progress = False
        for cand in _variants(cur):
            if time.time() > t_end:
                break
            try:
                with core.time_limit(timeout):
                    o = judge(cand)
            except core.CaseTimeout:
                continue
            hit = [d for s_, d in o.failures if s_ == sig]
            if hit:
                cur, best, best_detail = cand, cand, hit[0]
                progress = True
                break
    return best, best_detail


def plan(tier, seed, jobs):
    total = 1600 if tier == "quick" else 30000
    shards = max(jobs, 16) if tier == "quick" else max(jobs, 64)
    n = -(-total // shards)
    return [{"seed": seed * 1000 + k, "n": n} for k in range(shards)]


def run_shard(shard, tier):
    import fnmatch

    g.selfcheck()
    col = core.Collector(PROP, shard["id"])
    core.hyp_search(cases(shard["seed"]), judge, shard["n"], shard["seed"], col,
                    known_sigs=shard.get("known_sigs", ()), case_timeout=120, shrink=False)
    known = shard.get("known_sigs", ())
    for sig in list(col.failures):
        if any(fnmatch.fnmatchcase(sig, k) for k in known):
            continue
        first = col.failures[sig]["examples"][0]["case"]
        small, detail = minimise(first, sig, budget_s=12 if tier == "quick" else 60)
        if small is not None:
            col.add_shrunk(sig, small, detail)
    return col.result()
