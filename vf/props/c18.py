"""C18 — encoded scenes and simulations decode and replay to the same thing.

One case = one generated program (static or dynamic fragment, vf.c18_gen) + RNG seeds + plans
for the corruption / cross-decoding / perturbation sub-oracles; or one direct codec value.
Oracles (all independent of the codec implementation: round trip, exception class, iff):

 (i)   sceneFromBytes(sceneToBytes(s)) == s on every object property and param (vf.canon);
 (ii)  simulationFromBytes(simulationToBytes(sim)) in the harness simulator reproduces
       trajectory, actions, records, termination (global RNG re-seeded differently first);
 (iii) decoding with a scenario compiled from a different AST / mode2D / params / model /
       scenario name raises SerializationError (both directions); an identical recompile
       decodes to the same scene; plus, for every program, a variant compile whose options
       differ only in a param override with an "empty" value (0, 0.0, False, "", None: added,
       removed, or replaced by an empty value of another kind -- values that are == in Python
       are never opposed) -- judged only if the two scenes really differ in that parameter;
 (iv)  every proper prefix of a scene encoding raises SerializationError; for replays: inside
       the header and strictly inside a value's encoding;
 (v)   [replays: judged only while *decoding* -- an exception raised by a later computation
       on a successfully decoded value (float(10**400) in user code ...) is classed
       `unjudged:replay-decoded-then-later-computation-failed`, see replay_failure_class]
       single-byte substitutions at every offset (integers and the sign/exponent bytes of
       doubles: 16/8 values in the quick tier, all 255 in the thorough tier; other bytes 2/6)
       either decode or raise SerializationError (replays: additionally the documented
       DivergenceError / rejection);
 (vi)  replay of a run recorded with enableDivergenceCheck, with one reported dynamic property
       shifted by delta at one update: DivergenceError  <=>  |delta| > divergenceTolerance;
       and (check_stuck) recordings / replays in which the harness simulator lets one property
       drift by delta per update, one of the two getting *stuck* from some update on (reports
       the previous value again): DivergenceError exactly at the first update whose reported
       value is farther than the tolerance from the recorded one, for a replay that stays put
       while the recording moves and vice versa, both signs, float / Vector / int.
"""

from __future__ import annotations

import contextlib
import io
import math
import random
import re

from hypothesis import strategies as st

from vf import c18_gen, canon, core

PROP = "C18"
NEEDS_PARSER = True
FLOOR = 0.60
RULE = ("Hypothesis-generated Scenic programs (static fragment: every built-in primitive "
        "distribution -- Range, Normal, TruncatedNormal, DiscreteRange at the integer codec "
        "boundaries 252/253, +-2^15, +-2^31, +-2^63, 2^200, 2^1000, Uniform/Discrete with options "
        "of unequal types chosen by index, >253 options, Uniform(*tuple), points in regions with "
        "random parameters, vector operators, noisy colors, resample, mutate, requirements-only "
        "values, param overrides, model statement, modular scenarios, 2D mode; dynamic fragment: "
        "behaviors / monitors drawing from all of these at run time, do choose / shuffle, soft "
        "requirements, terminate, records) plus direct codec values; per program: round trip, "
        "all truncations, byte corruptions at every offset, cross-decoding against a variant "
        "compile and against a compile differing only in a falsy-valued param override, replay, "
        "replay truncation/corruption, one perturbed replay per type/sign/side of the tolerance, "
        "replays of drifting recordings in a simulator that is stuck (and the converse).  Non-trivial = the "
        "scene encoding holds >= 3 values of >= 2 codecs, or the simulation drew >= 1 run-time "
        "random value; distinct = SHA-1 of the case.")
ASSUMPTIONS = [
    "vf.c18_sim.HSimulator is deterministic and keeps its own state (self-check at start-up)",
    "value boundaries inside an encoding are observed by wrapping Serializer.writeValue while "
    "encoding (self-check: the traced bytes equal the bytes of the public API)",
    "generated programs use no partial operations on random values, so an exception while "
    "decoding corrupted data comes from Scenic, not from user code",
    "AST/option hashes are 32 bit: an accidental collision (2^-32 per pair) would be reported",
]

ADDR = re.compile(r"0x[0-9a-fA-F]+")


class Outcome(core.Outcome):
    """Outcome that records each signature once per case (first witness + a count)."""

    __slots__ = ("_seen",)

    def __init__(self):
        super().__init__()
        self._seen = {}

    def fail(self, sig, **detail):
        if sig in self._seen:
            self._seen[sig]["witnesses"] += 1
            return
        d = core.jsonable(detail)
        d["witnesses"] = 1
        self._seen[sig] = d
        self.failures.append((sig, d))


# ----------------------------------------------------------------------------------------------
# tracing of value boundaries
# ----------------------------------------------------------------------------------------------


@contextlib.contextmanager
def trace_writes():
    """Log (serializer id, start, end, type name) of every Serializer.writeValue, and count the
    run-time random values recorded by simulations."""
    from scenic.core.serialization import Serializer
    from scenic.core.simulators import Simulation

    log = {"writes": [], "runtime": 0}
    orig_write = Serializer.writeValue
    orig_rec = Simulation.recordSampledValue

    def writeValue(self, value, ty):
        a = self.stream.tell()
        orig_write(self, value, ty)
        log["writes"].append((id(self), a, self.stream.tell(), getattr(ty, "__name__", "?")))

    def recordSampledValue(self, dist, values):
        log["runtime"] += 1
        return orig_rec(self, dist, values)

    Serializer.writeValue = writeValue
    Simulation.recordSampledValue = recordSampledValue
    try:
        yield log
    finally:
        Serializer.writeValue = orig_write
        Simulation.recordSampledValue = orig_rec


def cell_at(spans, n, header):
    """Codec cell of byte offset n: 'header' or '<type><width>'; and whether n is strictly
    inside a value (start < n < end) / at its first byte."""
    if n < header:
        return "header", True
    for a, b, ty in spans:
        if a <= n < b:
            w = b - a
            name = ty
            if ty in ("int", "bool"):
                name = f"{ty}{w if w in (1, 3, 5) else 'N'}"
            return name, n > a
    return "gap", False


# ----------------------------------------------------------------------------------------------
# compiling
# ----------------------------------------------------------------------------------------------

def compile_prog(prog, *, source=None, mode2D=None, params=None, model=None, scenario=None):
    import scenic

    src = source if source is not None else c18_gen.emit(prog)
    kw = {}
    if model is not None:
        kw["model"] = model
    if scenario is not None:
        kw["scenario"] = scenario
    return scenic.scenarioFromString(
        src, mode2D=prog["mode2D"] if mode2D is None else mode2D,
        params=dict(prog["ovr"] if params is None else params), **kw)


def seed_all(s):
    import numpy

    random.seed(s)
    numpy.random.seed(s % (2 ** 32))


def generate(scenario, seed):
    from scenic.core.distributions import RejectionException

    seed_all(seed)
    try:
        scene, _ = scenario.generate(maxIterations=60)
    except RejectionException:
        return None
    except (OverflowError, ZeroDivisionError) as e:
        # plain Python arithmetic of the program failed on this sample (e.g. a 300-digit
        # integer times a float): the case is outside the domain of this property
        return type(e).__name__
    return scene


# ----------------------------------------------------------------------------------------------
# sub-oracles
# ----------------------------------------------------------------------------------------------

def compare_scenes(out, a, b, where, src):
    """(i) every object property and param equal; failures are attributed per object."""
    ca, cb = canon.canon_scene(a), canon.canon_scene(b)
    if ca == cb:
        return True
    oa, ob = ca[1], cb[1]
    reported = False
    if len(oa) != len(ob):
        out.fail(f"{where}|object-count-differs", source=src)
        return False
    for i, (x, y) in enumerate(zip(oa, ob)):
        if x != y:
            mutated = a.objects[i].mutationScale != 0
            d = canon.diff(x, y)
            props = sorted({p.split("/")[2] for p, _, _ in d if p.count("/") >= 2})
            cell = "mutated-object" if mutated else "object"
            out.fail(f"{where}:{cell}|property-differs", source=src, object=i, props=props,
                     diff=d[:3])
            reported = True
    if ca[2] != cb[2]:
        out.fail(f"{where}|ego-differs", source=src)
        reported = True
    if ca[3] != cb[3]:
        out.fail(f"{where}:param|value-differs", source=src, diff=canon.diff(ca[3], cb[3])[:3])
        reported = True
    if ca[4] != cb[4]:
        out.fail(f"{where}:workspace|differs", source=src)
        reported = True
    if not reported:
        raise core.HarnessError("canonical scenes differ but no component does")
    return False


def decode_outcome(fn):
    """('ok', value) | ('ser', exc) | ('other', exc)"""
    from scenic.core.serialization import SerializationError

    try:
        return "ok", fn()
    except SerializationError as e:
        return "ser", e
    except core.CaseTimeout:
        raise
    except Exception as e:  # judged by the caller: never a pass
        return "other", e


def check_truncations(out, scenario, data, spans, src):
    header = 10
    for n in range(len(data)):
        kind, val = decode_outcome(lambda: scenario.sceneFromBytes(data[:n]))
        if kind == "ser":
            continue
        cell, _ = cell_at(spans, n, header)
        if kind == "ok":
            out.fail(f"truncate:scene:{cell}|decodes", source=src, n=n, length=len(data))
        else:
            out.fail(f"truncate:scene|{core.exc_signature(val)}", source=src, n=n, cell=cell,
                     length=len(data), error=repr(val)[:300])


def corruption_values(rng, orig, k):
    if k >= 255:
        return [v for v in range(256) if v != orig]
    cand = [orig ^ 1, orig ^ 0x80, 0xFF, 0x00, 0xFD, 0xFE, 0x7F, (orig + 1) % 256, 0xF0, 0xFC,
            0x80, 0x01]
    vals = []
    first = [orig ^ (1 << rng.randrange(8)), rng.choice(cand), rng.randrange(256)]
    for v in first + (cand if k > 3 else []):
        if v != orig and v not in vals:
            vals.append(v)
    while len(vals) < k:
        v = rng.randrange(256)
        if v != orig and v not in vals:
            vals.append(v)
    return vals[:k]


def corruption_plan(data, spans, header, tier, rng, max_decodes):
    """[(offset, [values])]: every offset is hit; the bytes whose corruption changes the
    *structure* of the decoded value get many more values -- all bytes of integers (option
    indices, lengths) and the two high-order bytes of every double (sign / exponent: NaN, inf,
    huge magnitudes) -- quick: 16 / 8 values, thorough: all 255; other bytes 2 / 6 values."""
    hot, warm = {}, {}
    for a, b, ty in spans:
        if ty in ("int", "bool"):
            for n in range(a, b):
                hot[n] = True
        elif (b - a) % 8 == 0:  # float, Vector, Orientation, Color: packed doubles
            for n in range(a, b):
                if (n - a) % 8 >= 6:
                    warm[n] = True
    k_hot, k_warm, k_cold = (16, 8, 2) if tier == "quick" else (255, 255, 6)
    plan = []
    for off in range(len(data)):
        k = k_hot if off in hot else k_warm if off in warm else k_cold
        plan.append((off, corruption_values(rng, data[off], k)))
    total = sum(len(v) for _, v in plan)
    if total > max_decodes:  # scale down uniformly, keep at least one value per offset
        f = max_decodes / total
        plan = [(off, vals[:max(1, int(len(vals) * f))]) for off, vals in plan]
    return plan


def check_corruptions(out, scenario, data, spans, src, rng, tier, max_decodes):
    header = 10
    stats = {"ok": 0, "ser": 0}
    for off, vals in corruption_plan(data, spans, header, tier, rng, max_decodes):
        for v in vals:
            bad = data[:off] + bytes([v]) + data[off + 1:]
            kind, val = decode_outcome(lambda: scenario.sceneFromBytes(bad))
            if kind == "other":
                cell, _ = cell_at(spans, off, header)
                out.fail(f"corrupt:scene|{core.exc_signature(val)}", source=src, cell=cell,
                         offset=off, value=v, error=repr(val)[:300])
            else:
                stats[kind] += 1
    return stats


def variant_kinds(prog):
    """Cross-decoding variants that apply to this program."""
    kinds = ["ast", "params", "same", "mode2D", "params-falsy", "params-falsy"]
    if prog.get("model"):
        kinds += ["model", "model"]
    if prog.get("modular"):
        kinds += ["scenario", "scenario"]
    q0 = prog["ovr"].get("q0") if prog["ovr"] else None
    if isinstance(q0, (int, float)) and not isinstance(q0, bool):
        kinds += ["params-retyped"]
    return kinds


def build_variant(prog, kind):
    """(expect_refusal, scenario) or None if the variant does not apply / does not compile."""
    src = c18_gen.emit(prog)
    try:
        if kind == "same":
            return False, compile_prog(prog)
        if kind == "ast":
            return True, compile_prog(prog, source=c18_gen.emit(prog, variant=("ast", 1)))
        if kind == "mode2D":
            return True, compile_prog(prog, source=src, mode2D=not prog["mode2D"])
        if kind == "params":
            ovr = dict(prog["ovr"])
            ovr["q0"] = 2 if ovr.get("q0") != 2 else 3
            return True, compile_prog(prog, params=ovr)
        if kind == "params-retyped":
            return True, compile_prog(prog, params={"q0": str(prog["ovr"]["q0"])})
        if kind == "model":
            return True, compile_prog(prog, model="vf.c18_model_b")
        if kind == "scenario":
            return True, compile_prog(prog, scenario="Alt")
    except Exception:
        # e.g. 3D-only source compiled in 2D mode: the variant is outside the domain
        return None
    raise ValueError(kind)


def check_cross(out, prog, kind, base, scene, data, seed, src):
    v = build_variant(prog, kind)
    if v is None:
        out.cls("cross:n/a")
        return
    refuse, other = v
    out.cls("cross:" + kind)
    if not refuse:
        k, val = decode_outcome(lambda: other.sceneFromBytes(data))
        if k != "ok":
            out.fail(f"cross:{kind}|refused", source=src, error=repr(val)[:300])
        elif any(o.mutationScale != 0 for o in scene.objects):
            out.cls("cross:same:mutated-unjudged")  # would repeat roundtrip:mutated-object
        else:
            compare_scenes(out, scene, val, "cross:same", src)
        return
    k, val = decode_outcome(lambda: other.sceneFromBytes(data))
    if k == "ok":
        out.fail(f"cross:{kind}|accepted", source=src, direction="base->variant")
    elif k == "other":
        out.fail(f"cross:{kind}|{core.exc_signature(val)}", source=src, error=repr(val)[:300])
    s2 = generate(other, seed)
    if s2 is None or isinstance(s2, str):
        return
    try:
        d2 = other.sceneToBytes(s2)
    except Exception:
        return
    k, val = decode_outcome(lambda: base.sceneFromBytes(d2))
    if k == "ok":
        out.fail(f"cross:{kind}|accepted", source=src, direction="variant->base")
    elif k == "other":
        out.fail(f"cross:{kind}|{core.exc_signature(val)}", source=src, error=repr(val)[:300])


# Compile options that differ only in a param override whose value is "empty".  Values that
# compare equal in Python (0, 0.0, False) are never opposed to each other: whether 0 and 0.0
# are *different* options is not stated anywhere, so such pairs are not generated.
FALSY = [0, 0.0, False, "", None]
FALSY_GROUP = [0, 0, 0, 1, 2]
_MISSING = ["<no such param>"]


def falsy_name(v):
    return {int: "int0", float: "float0", bool: "False", str: "empty-str",
            type(None): "None"}[type(v)]


def is_falsy_override(v):
    return v is None or (isinstance(v, (int, float, str)) and not v)


def falsy_variant(prog, sel):
    """(label, overrides of the variant compile): the base compile's overrides with one
    falsy-valued override added / removed / replaced by a falsy value of another kind."""
    base = dict(prog["ovr"])
    g = FALSY[sel % 5]
    mode = (sel // 5) % 3
    if not base:
        return "absent-vs-" + falsy_name(g), {("zz" if mode == 2 else "q0"): g}
    f = base["q0"]
    if is_falsy_override(f):
        if mode == 0:
            return falsy_name(f) + "-vs-absent", {}
        if mode == 1:
            gf = FALSY_GROUP[[type(x) for x in FALSY].index(type(f))]
            others = [x for x, grp in zip(FALSY, FALSY_GROUP) if grp != gf]
            h = others[sel % len(others)]
            return falsy_name(f) + "-vs-" + falsy_name(h), {"q0": h}
        return "extra-" + falsy_name(g), {"q0": f, "zz": g}
    if mode == 1:
        return "truthy-vs-" + falsy_name(g), {"q0": g}
    return "extra-" + falsy_name(g), {"q0": f, "zz": g}


def same_param(a, b):
    if a is _MISSING or b is _MISSING:
        return a is b
    if canon.canon(a) == canon.canon(b):
        return True
    try:
        return bool(a == b)
    except Exception:
        return False


def check_cross_falsy(out, prog, base, scene, data, case, src):
    """(iii) for compile options differing only in a falsy param override.  Refusal is demanded
    only if the two compiles really give the overridden global parameter different values in
    the scenes at hand (an override that repeats what the program says anyway is not judged)."""
    sel = case.get("falsy", case["variant"] + case["cseed"])
    label, ovr = falsy_variant(prog, sel)
    try:
        other = compile_prog(prog, params=ovr)
    except core.CaseTimeout:
        raise
    except Exception:
        out.cls("cross:falsy:n/a")
        return
    s2 = generate(other, case["seed"])
    if s2 is None or isinstance(s2, str):
        out.cls("cross:falsy:n/a")
        return
    names = {n for n in set(ovr) | set(prog["ovr"])
             if not (n in ovr and n in prog["ovr"] and same_param(ovr[n], prog["ovr"][n]))}
    if not names:
        raise core.HarnessError("falsy variant does not differ from the base options")
    if all(same_param(scene.params.get(n, _MISSING), s2.params.get(n, _MISSING))
           for n in names):
        out.cls("cross:falsy:same-effect-unjudged")
        return
    out.cls("cross:falsy:" + label)
    kind = "params-falsy"
    k, val = decode_outcome(lambda: other.sceneFromBytes(data))
    if k == "ok":
        out.fail(f"cross:{kind}|accepted", source=src, direction="base->variant",
                 base=repr(prog["ovr"]), variant=repr(ovr))
    elif k == "other":
        out.fail(f"cross:{kind}|{core.exc_signature(val)}", source=src, error=repr(val)[:300])
    try:
        d2 = other.sceneToBytes(s2)
    except Exception:
        return
    k, val = decode_outcome(lambda: base.sceneFromBytes(d2))
    if k == "ok":
        out.fail(f"cross:{kind}|accepted", source=src, direction="variant->base",
                 base=repr(prog["ovr"]), variant=repr(ovr))
    elif k == "other":
        out.fail(f"cross:{kind}|{core.exc_signature(val)}", source=src, error=repr(val)[:300])


# ---- simulations -------------------------------------------------------------------------------

def run_sim(scene, dyn, **kw):
    from vf.c18_sim import HSimulator

    simulator = HSimulator(perturb=kw.pop("perturb", None), drift=kw.pop("drift", None))
    sim = simulator.simulate(scene, maxSteps=dyn["maxSteps"], timestep=dyn["timestep"], **kw)
    return simulator, sim


def canon_sim(sim):
    c = canon.canon_result(sim)
    if c[0] == "result":
        term = c[4]
        c = c[:4] + ((term[0], term[1], ADDR.sub("0x?", term[2])),) + c[5:]
    return c


def replay_outcome(scenario, blob, dyn, simulator=None, **kw):
    """'ok' | 'none' | 'ser' | 'div' | ('other', exc)"""
    from scenic.core.serialization import SerializationError
    from scenic.core.simulators import DivergenceError
    from vf.c18_sim import HSimulator

    if simulator is None:
        simulator = HSimulator(perturb=kw.pop("perturb", None))
    try:
        sim = scenario.simulationFromBytes(blob, simulator,
                                           maxSteps=dyn["maxSteps"], timestep=dyn["timestep"],
                                           **kw)
        return ("ok", sim) if sim is not None else ("none", None)
    except SerializationError as e:
        return "ser", e
    except DivergenceError as e:
        return "div", e
    except core.CaseTimeout:
        raise
    except Exception as e:
        return "other", e


DECODING_FRAMES = {"deserializeValue", "replaySampledValue", "readValue", "readSamplable",
                   "readSample", "readScene", "readReplayHeader", "initializeReplay",
                   "detectReplayEnd", "atEnd", "sceneFromBytes"}
INVARIANT_ERRORS = (AssertionError, IndexError, KeyError, TypeError, AttributeError)


def replay_failure_class(exc):
    """Why a replay of corrupted / truncated data raised something unexpected.

    'decoding'  -- a frame of the decoding machinery is on the traceback: the property's
                   business (must be SerializationError);
    'invariant' -- no decoding frame, but an internal invariant of Scenic's distribution
                   machinery (core/distributions.py) broke on the decoded value: the value was
                   not a legal value of its distribution and decoding let it through;
    'downstream'-- the data decoded to a legal (if absurd) value and a *later* computation of
                   the simulation or of user code failed on it (e.g. float(10**400)): not a
                   decoding failure, not judged."""
    import traceback

    frames = traceback.extract_tb(exc.__traceback__)
    for fr in frames:
        fn = fr.filename.replace("\\", "/")
        if fr.name in DECODING_FRAMES and "/scenic/core/" in fn:
            return "decoding"
        if fn.endswith("/scenic/core/serialization.py"):
            return "decoding"
    last = frames[-1].filename.replace("\\", "/") if frames else ""
    if isinstance(exc, INVARIANT_ERRORS) and last.endswith("/scenic/core/distributions.py"):
        return "invariant"
    return "downstream"


def check_simulation(out, prog, scenario, scene, case, src, tier):
    from scenic.core.simulators import Simulation

    dyn = prog["dyn"]
    rng = random.Random(case["cseed"])
    with trace_writes() as log:
        seed_all(case["seed"] + 1)
        try:
            simulator, sim = run_sim(scene, dyn, maxIterations=dyn["maxIterations"],
                                     enableDivergenceCheck=True)
        except core.CaseTimeout:
            raise
        except Exception as e:
            # the original run itself failed: outside this property (C12/C14 territory)
            out.cls("sim-error:" + type(e).__name__)
            return
    if sim is None:
        out.cls("sim-rejected")
        return
    out.cls("sim:" + sim.result.terminationType.name)
    runtime = log["runtime"]
    out.cls("runtime-draws>=1" if runtime else "runtime-draws=0")
    if runtime:
        out.nontrivial = True
    c1 = canon_sim(sim)
    sdata = scenario.sceneToBytes(scene)
    replay = sim.getReplay()
    blob = scenario.simulationToBytes(sim)
    if blob != sdata + replay:
        raise core.HarnessError("simulationToBytes is not scene + replay")
    sid = id(sim._replayOut)
    spans = [(a, b, ty) for (i, a, b, ty) in log["writes"] if i == sid]
    if spans and spans[-1][1] != len(replay):
        raise core.HarnessError("traced replay spans do not cover the replay")

    # (ii) replay reproduces the run, whatever the global RNG state
    mutated = any(o.mutationScale != 0 for o in scene.objects)
    cell = "replay:mutated-scene" if mutated else "replay"
    seed_all(case["seed"] + 7919)
    k, val = replay_outcome(scenario, blob, dyn)
    if k == "ok":
        c2 = canon_sim(val)
        if c1 != c2:
            d = canon.diff(c1, c2)
            part = sorted({p.split("/")[1] for p, _, _ in d if p.count("/") >= 1})
            out.fail(cell + "|" + "+".join(part or ["result"]) + "-differ", source=src,
                     diff=d[:3], seed=case["seed"])
    elif k == "other":
        out.fail(cell + "|" + core.exc_signature(val), source=src, error=repr(val)[:300])
    else:
        out.fail(cell + "|" + {"none": "rejected", "ser": "SerializationError",
                               "div": "DivergenceError"}[k], source=src,
                 error=repr(val)[:300])
    if mutated:
        # the decoded scene is not the recorded one (mutation noise is re-drawn, reported
        # above): truncation / corruption / perturbation verdicts would only repeat that
        return

    # (iv) truncation of the replay part
    L0 = len(sdata)
    points = list(range(0, min(6, len(replay))))
    inner = [n for (a, b, ty) in spans for n in range(a + 1, b)]
    bounds = [a for (a, b, ty) in spans if a >= 6]
    nsample = 25 if tier == "quick" else 120
    points += rng.sample(inner, min(len(inner), nsample))
    points += rng.sample(bounds, min(len(bounds), nsample // 4))
    for n in sorted(set(points)):
        seed_all(case["seed"] + 3)
        k, val = replay_outcome(scenario, blob[:L0 + n], dyn)
        cell, strictly = cell_at(spans, n, 6)
        must = n < 6 or strictly
        if k == "other" and replay_failure_class(val) == "downstream":
            out.cls("unjudged:replay-decoded-then-later-computation-failed:"
                    + type(val).__name__)
        elif k == "other":
            out.fail(f"truncate:replay|{core.exc_signature(val)}", source=src, n=n, cell=cell,
                     error=repr(val)[:300])
        elif must and k != "ser":
            out.fail(f"truncate:replay:{cell}|" + ("decodes" if k in ("ok", "none") else k),
                     source=src, n=n, length=len(replay))

    # (v) corruption of the replay part
    offs = list(range(len(replay)))
    if len(offs) > nsample:
        offs = sorted(rng.sample(offs, nsample))
    for off in offs:
        for v in corruption_values(rng, replay[off], 2 if tier == "quick" else 6):
            bad = blob[:L0 + off] + bytes([v]) + blob[L0 + off + 1:]
            seed_all(case["seed"] + 5)
            k, val = replay_outcome(scenario, bad, dyn)
            if k == "other" and replay_failure_class(val) == "downstream":
                # the bytes decoded to a legal value of the codec; what failed is a later
                # computation of the simulation / of user code on that value
                out.cls("unjudged:replay-decoded-then-later-computation-failed:"
                        + type(val).__name__)
            elif k == "other":
                cell, _ = cell_at(spans, off, 6)
                out.fail(f"corrupt:replay|{core.exc_signature(val)}", source=src, cell=cell,
                         offset=off, value=v, kind=replay_failure_class(val),
                         error=repr(val)[:300])

    # (vi) perturbed replay
    check_divergence(out, scenario, scene, sim, blob, dyn, case, src)
    check_stuck(out, scenario, scene, sim, dyn, case, src)


TOLS = [0, 0, 0.25, 1.0, 2.5]


def check_divergence(out, scenario, scene, sim, blob, dyn, case, src):
    """(vi) one replay per (value type x sign x within/beyond) with exactly one reported value
    shifted.  Magnitudes are chosen a factor 2 away from the tolerance (or 2^-20 / 0 when the
    tolerance is 0); the expected verdict is then computed from the value the simulator really
    reported (|reported - true| > tolerance), and not judged within 1e-9 relative of the
    tolerance, so rounding of the shift against a huge true value cannot cause a false alarm."""
    pl = case["perturb"]
    nobj = len(sim.objects)
    tol = TOLS[pl["tol"] % len(TOLS)]
    for want in ("float", "Vector", "int", "str"):
        # first object (from the case's choice on) that has a dynamic property of this type
        pick = None
        for di in range(nobj):
            i = (pl["obj"] + di) % nobj
            types = type(sim.objects[i])._simulatorProvidedProperties
            names = sorted(p for p, ty in types.items() if ty.__name__ == want)
            if names and sim.updates[i] > 0:
                pick = (i, names[pl["prop"] % len(names)])
                break
        if pick is None:
            continue
        i, prop = pick
        u = pl["update"] % sim.updates[i]
        if want == "str":
            variants = [("str", None, True)]
        else:
            variants = [("zero", 0, False)]
            for sign in (1, -1):
                for beyond in (True, False):
                    if tol == 0:
                        if not beyond:
                            continue
                        mag = 1 if want == "int" else 2.0 ** -20
                    else:
                        mag = tol * 2 if beyond else tol / 2
                        if want == "int":
                            mag = int(mag) + (1 if beyond else 0)
                    variants.append(("positive" if sign > 0 else "negative", sign * mag,
                                     abs(mag) > tol))
        for direction, sm, expect in variants:
            if want == "str":
                delta = "other"
            elif want == "Vector":
                if pl["diag"] and sm:
                    c = abs(sm) / 2.0  # (c, -c, c*sqrt(2)) has norm 2c
                    sg = 1 if sm > 0 else -1
                    delta = [sg * c, -sg * c, sg * c * 2 ** 0.5]
                else:
                    delta = [0.0, 0.0, 0.0]
                    delta[pl["axis"] % 3] = float(sm)
            elif want == "float":
                delta = float(sm)
            else:
                delta = int(sm)
            plan = {"update": u, "obj": i, "prop": prop, "delta": delta}
            seed_all(case["seed"] + 11)
            from vf.c18_sim import HSimulator

            simulator = HSimulator(perturb=plan)
            k, val = replay_outcome(scenario, blob, dyn, simulator=simulator,
                                    divergenceTolerance=tol)
            if len(simulator.effects) != 1:
                if k in ("ser", "other"):
                    out.fail(f"diverge:{want}:{direction}|replay-failed-before-perturbation",
                             source=src, plan=plan, outcome=k, error=repr(val)[:300])
                else:
                    raise core.HarnessError(f"perturbation plan {plan} was not applied once")
                continue
            # the verdict is derived from what the simulator really reported: the shift may
            # be rounded (or absorbed completely) when the true value is huge
            orig, new = simulator.effects[0]
            if want == "str":
                eff, expect, band = None, new != orig, False
            else:
                if want == "Vector":
                    eff = math.hypot(*[float(a) - float(b) for a, b in zip(new, orig)])
                    scale = max(1.0, tol, *[abs(float(c)) for c in orig])
                else:
                    eff = abs(new - orig)
                    scale = max(1.0, tol, abs(float(orig)))
                expect = eff > tol
                band = abs(eff - tol) <= 1e-9 * scale and not (eff == 0 and tol == 0)
            if band:
                out.cls("near-boundary:perturbation")
                continue
            if want != "str" and sm and eff == 0:
                out.cls("perturbation-absorbed-by-rounding")
            out.cls(f"perturb:{want}:{direction}:" + ("beyond" if expect else "within"))
            cell = f"diverge:{want}:{direction}"
            detail = dict(source=src, plan=plan, tolerance=tol, seed=case["seed"],
                          reported=[repr(orig)[:60], repr(new)[:60]])
            if k == "other":
                out.fail(f"{cell}|{core.exc_signature(val)}", error=repr(val)[:300], **detail)
            elif expect and k != "div":
                out.fail(f"{cell}|not-detected", outcome=k, **detail)
            elif not expect and k == "div":
                out.fail(f"{cell}|false-divergence", error=str(val)[:300], **detail)
            elif not expect and k == "ser":
                out.fail(f"{cell}|SerializationError", error=str(val)[:300], **detail)


def pick_dynamic(sim, pl, want):
    """(object index, property name) of the first object (from the case's choice on) that has a
    dynamic property of the wanted type and was updated at least once; or None."""
    nobj = len(sim.objects)
    for di in range(nobj):
        i = (pl["obj"] + di) % nobj
        types = type(sim.objects[i])._simulatorProvidedProperties
        names = sorted(p for p, ty in types.items() if ty.__name__ == want)
        if names and sim.updates[i] > 0:
            return i, names[pl["prop"] % len(names)]
    return None


def report_diff(a, b):
    """(distance, scale) between a recorded and a replayed reported value, by the documented
    rule: scalars |a-b|, vectors the Euclidean norm, anything else equal / not equal."""
    from scenic.core.vectors import Vector

    if isinstance(a, Vector) and isinstance(b, Vector):
        return (math.hypot(*[float(x) - float(y) for x, y in zip(a, b)]),
                max([1.0] + [abs(float(c)) for c in a] + [abs(float(c)) for c in b]))
    if isinstance(a, (int, float)) and isinstance(b, (int, float)) \
            and not isinstance(a, bool) and not isinstance(b, bool):
        return abs(a - b), max(1.0, abs(float(a)), abs(float(b)))
    return (0 if a == b else math.inf), 1.0


def first_beyond(recorded, replayed, tol):
    """Index (into `replayed`) of the first update report in which some dynamic property is
    farther than `tol` from the recorded one; None if there is none; 'band' if some distance
    is within rounding of the tolerance; 'unmatched' if an update was never recorded."""
    rec = {(i, u): vals for i, u, vals in recorded}
    first = None
    for n, (i, u, vals) in enumerate(replayed):
        if (i, u) not in rec:
            return "unmatched"
        for p, v in vals.items():
            d, scale = report_diff(rec[(i, u)][p], v)
            if d != d:
                return "band"
            if d != math.inf and abs(d - tol) <= 1e-9 * max(scale, tol) \
                    and not (d == 0 and tol == 0):
                return "band"
            if d > tol and first is None:
                first = n
    return first


def check_stuck(out, scenario, scene, sim, dyn, case, src):
    """(vi) a property that moves in the recording while the replaying simulator keeps
    reporting the same value (and the other way round), for both signs.

    The run is recorded twice with the harness simulator reporting `true + delta * update` for
    one dynamic property: once all the way (A), once getting stuck from update u0 on (B: every
    later update reports what update u0-1 reported).  Replaying A in simulator B is a replay
    whose property stays put while the recording moves on; replaying B in simulator A the
    opposite.  What each simulator reported is logged by the harness, so the expected verdict
    (DivergenceError at the first update whose report is farther than the tolerance from the
    recorded report, by the documented distance) does not involve Scenic."""
    from vf.c18_sim import HSimulator

    pl = case.get("stuck")
    if pl is None:
        return
    pp = case["perturb"]
    tol = TOLS[pp["tol"] % len(TOLS)]
    # one value type per case (two recordings + two replays), rotating with the case
    order = [(t, ("float", "Vector", "int")[t]) for t in range(3)]
    r = case["cseed"] % 3
    order = order[r:] + order[:r]
    done = False
    for t, want in order:
        pick = None if done else pick_dynamic(sim, pp, want)
        if pick is None:
            continue
        done = True
        i, prop = pick
        if sim.updates[i] < 2:
            out.cls("stuck:n/a:single-update")
            continue
        u0 = 1 + pl["update"] % (sim.updates[i] - 1)
        sign = 1 if (pl["sign"] + t) % 2 == 0 else -1
        if pl["mag"] == 0 and want != "int":
            # stays within the tolerance over the <= 8 updates of a run unless the property
            # also moves on its own
            mag = tol / 16 if tol else 2.0 ** -20
        elif want == "int":
            mag = int(2 * tol) + 2
        else:
            mag = 2 * tol + 1.0
        if want == "Vector":
            if pp["diag"]:
                c = mag / 2.0
                delta = [sign * c, -sign * c, sign * c * 2 ** 0.5]
            else:
                delta = [0.0, 0.0, 0.0]
                delta[pp["axis"] % 3] = float(sign * mag)
        else:
            delta = sign * mag
        plans = {"moving": {"obj": i, "prop": prop, "delta": delta, "freeze_from": None},
                 "stuck": {"obj": i, "prop": prop, "delta": delta, "freeze_from": u0}}
        recs = {}
        for name, plan in plans.items():
            seed_all(case["seed"] + 1)
            try:
                simulator, s2 = run_sim(scene, dyn, maxIterations=dyn["maxIterations"],
                                        enableDivergenceCheck=True, drift=plan)
            except core.CaseTimeout:
                raise
            except Exception as e:
                out.cls("stuck:recording-error:" + type(e).__name__)
                continue
            if s2 is None:
                out.cls("stuck:recording-rejected")
                continue
            recs[name] = (list(simulator.reports), scenario.simulationToBytes(s2))
        if len(recs) != 2:
            continue
        # (recording, replaying simulator); direction = sign of replayed - recorded
        for side, rname, pname in (("replay-static", "moving", "stuck"),
                                   ("recording-static", "stuck", "moving")):
            direction = "positive" if (sign > 0) == (side == "recording-static") else "negative"
            recorded, blob = recs[rname]
            seed_all(case["seed"] + 13)
            simulator = HSimulator(drift=plans[pname])
            k, val = replay_outcome(scenario, blob, dyn, simulator=simulator,
                                    divergenceTolerance=tol)
            replayed = list(simulator.reports)
            fb = first_beyond(recorded, replayed, tol)
            if fb == "band":
                out.cls("near-boundary:stuck")
                continue
            if fb == "unmatched":
                out.cls("unjudged:stuck-replay-ran-past-recording")
                continue
            out.cls(f"stuck:{want}:{direction}:{side}:" + ("within" if fb is None else "beyond"))
            if side == "replay-static" and fb is not None:
                # the shape proper: the replayed simulator reports, at the update that must
                # be found divergent, exactly what it reported one update earlier
                mine = [v[prop] for (j, u, v) in replayed if j == i]
                if len(mine) >= 2 and report_diff(mine[-1], mine[-2])[0] == 0:
                    out.cls(f"stuck:{want}:recording-moves-replay-repeats-previous-value")
            cell = f"diverge-stuck:{want}:{direction}:{side}"
            detail = dict(source=src, plan=plans[pname], recorded_with=plans[rname],
                          tolerance=tol, seed=case["seed"], first_beyond=fb,
                          reports=len(replayed))
            if k == "other":
                out.fail(f"{cell}|{core.exc_signature(val)}", error=repr(val)[:300], **detail)
            elif k == "ser":
                out.fail(f"{cell}|SerializationError", error=str(val)[:300], **detail)
            elif fb is None and k == "div":
                out.fail(f"{cell}|false-divergence", error=str(val)[:300], **detail)
            elif fb is not None and k != "div":
                out.fail(f"{cell}|not-detected", outcome=k, **detail)
            elif fb is not None and fb != len(replayed) - 1:
                out.fail(f"{cell}|detected-late", error=str(val)[:300], **detail)


# ----------------------------------------------------------------------------------------------
# codec cases
# ----------------------------------------------------------------------------------------------

def judge_codec(case):
    from scenic.core.serialization import SerializationError, Serializer
    from scenic.core.vectors import Orientation, Vector

    out = Outcome()
    ty = {"int": int, "float": float, "bool": bool, "str": str, "bytes": bytes,
          "Vector": Vector, "Orientation": Orientation}[case["ty"]]
    v = case["value"]
    if case["ty"] == "float":
        v = float.fromhex(v)
    elif case["ty"] == "bytes":
        v = bytes.fromhex(v)
    elif case["ty"] == "Vector":
        v = Vector(*[float.fromhex(c) for c in v])
    elif case["ty"] == "Orientation":
        v = Orientation.fromEuler(*[float.fromhex(c) for c in v])
    out.cls("codec:" + case["ty"])
    out.nontrivial = True
    enc = Serializer()
    try:
        enc.writeValue(v, ty)
    except SerializationError:
        if case["ty"] == "int" and abs(v).bit_length() + 1 > 255 * 8:
            out.cls("codec:int-beyond-documented-limit")
            return out
        out.fail(f"codec:{case['ty']}|encode-refused", value=repr(v)[:80])
        return out
    data = enc.getBytes()
    w = len(data)
    form = case["ty"] + (str(w) if case["ty"] in ("int", "bool") and w in (1, 3, 5) else
                         "N" if case["ty"] in ("int", "bool") else "")
    k, val = decode_outcome(lambda: Serializer(data).readValue(ty))
    if k != "ok":
        out.fail(f"codec:{form}|roundtrip-" + ("refused" if k == "ser" else
                                                core.exc_signature(val)), value=repr(v)[:80])
    elif canon.canon(val) != canon.canon(v):
        out.fail(f"codec:{form}|roundtrip-differs", value=repr(v)[:80], got=repr(val)[:80])
    points = range(len(data)) if len(data) <= 600 else \
        sorted(set(list(range(8)) + list(range(len(data) - 8, len(data)))
                   + list(range(8, len(data), max(1, len(data) // 50)))))
    for n in points:
        k, val = decode_outcome(lambda: Serializer(data[:n]).readValue(ty))
        if k == "ok":
            out.fail(f"codec-truncate:{form}|decodes", value=repr(v)[:80], n=n, length=len(data),
                     got=repr(val)[:80])
        elif k == "other":
            out.fail(f"codec-truncate:{form}|{core.exc_signature(val)}", value=repr(v)[:80], n=n)
    return out


_CODEC = None


def codec_cases():
    global _CODEC
    if _CODEC is None:
        _CODEC = _codec_cases()
    return _CODEC


def _codec_cases():
    cases = []
    for b in c18_gen.INT_BOUNDS + [2 ** 2039 - 1, -2 ** 2039, 2 ** 2039, 2 ** 2047, 2 ** 15,
                                   -2 ** 15, 2 ** 16, 2 ** 32, -2 ** 63 + 1, 10 ** 599,
                                   10 ** 600]:
        for d in (-2, -1, 0, 1, 2):
            cases.append({"kind": "codec", "ty": "int", "value": b + d})
    for f in (0.0, -0.0, 1.5, -2.75, 1e300, 5e-324, float("inf"), float("-inf")):
        cases.append({"kind": "codec", "ty": "float", "value": f.hex()})
    for b in (True, False):
        cases.append({"kind": "codec", "ty": "bool", "value": b})
    for s in ("", "a", "é中", "x" * 252, "x" * 253, "y" * 300, "z" * 70000):
        cases.append({"kind": "codec", "ty": "str", "value": s})
    for s in (b"", b"\x00", b"\xff" * 252, b"\x01" * 253, b"\x02" * 40000):
        cases.append({"kind": "codec", "ty": "bytes", "value": s.hex()})
    cases.append({"kind": "codec", "ty": "Vector", "value": [(1.5).hex(), (-2.0).hex(),
                                                             (1e-300).hex()]})
    cases.append({"kind": "codec", "ty": "Orientation", "value": [(0.3).hex(), (-1.2).hex(),
                                                                  (2.5).hex()]})
    seen, uniq = set(), []
    for c in cases:
        d = core.digest(c)
        if d not in seen:
            seen.add(d)
            uniq.append(c)
    return uniq


# ----------------------------------------------------------------------------------------------
# judge
# ----------------------------------------------------------------------------------------------

def judge(case, tier="quick"):
    if case.get("kind") == "codec":
        return judge_codec(case)
    from scenic.core.serialization import SerializationError

    out = Outcome()
    from vf.props import c14

    if c14.veneer_state():
        # a previous case left interpreter state behind (C14's business): repair, do not
        # let it cascade into this case's verdicts
        out.cls("repaired-veneer-state")
        c14.force_reset()
    prog = case["prog"]
    src = c18_gen.emit(prog)
    feats = c18_gen.features(prog)
    out.cls(*sorted("f:" + f for f in feats))
    out.cls("dynamic" if prog["dyn"] else "static", "mode2D" if prog["mode2D"] else "mode3D")
    if prog["ovr"]:
        out.cls("param-override")
    if prog["modular"]:
        out.cls("modular")
    try:
        scenario = compile_prog(prog)
    except core.CaseTimeout:
        raise
    except Exception as e:
        out.cls("discard:compile:" + type(e).__name__)
        out.note = repr(e)[:200]
        return out
    scene = generate(scenario, case["seed"])
    if scene is None or isinstance(scene, str):
        out.cls("discard:rejected" if scene is None else "discard:generate:" + scene)
        return out
    with trace_writes() as log:
        try:
            data = scenario.sceneToBytes(scene)
        except SerializationError as e:
            out.fail("encode|" + core.exc_signature(e), source=src, error=repr(e)[:300])
            return out
    spans = [(a, b, ty) for (_, a, b, ty) in log["writes"]]
    if spans and (spans[0][0] != 10 or spans[-1][1] != len(data)):
        raise core.HarnessError("traced spans do not cover the scene encoding")
    codecs = {cell_at(spans, a, 10)[0] for a, _, _ in spans}
    for c in codecs:
        out.cls("enc:" + c)
    if len(spans) >= 3 and len({ty for _, _, ty in spans}) >= 2:
        out.nontrivial = True
    out.cls("values>=3" if len(spans) >= 3 else "values<3")

    # (i) round trip
    k, val = decode_outcome(lambda: scenario.sceneFromBytes(data))
    if k == "ser":
        out.fail("roundtrip|refused", source=src, error=repr(val)[:300])
        return out
    if k == "other":
        out.fail("roundtrip|" + core.exc_signature(val), source=src, error=repr(val)[:300])
        return out
    compare_scenes(out, scene, val, "roundtrip", src)
    if any(o.mutationScale != 0 for o in scene.objects):
        out.cls("has-mutated-object")

    rng = random.Random(case["cseed"])
    # (iv) truncation
    check_truncations(out, scenario, data, spans, src)
    # (v) corruption
    stats = check_corruptions(out, scenario, data, spans, src, rng, tier,
                              1500 if tier == "quick" else 9000)
    if stats["ok"]:
        out.cls("corrupt-decodes")
    if stats["ser"]:
        out.cls("corrupt-refused")
    # (iii) cross-decoding
    kinds = variant_kinds(prog)
    kind = kinds[case["variant"] % len(kinds)]
    if kind == "params-falsy":
        # (instead of, not in addition to, another variant: a compile is the expensive part)
        check_cross_falsy(out, prog, scenario, scene, data, case, src)
    else:
        check_cross(out, prog, kind, scenario, scene, data, case["seed"], src)
    # (ii), (iv)-(vi) on simulations
    if prog["dyn"]:
        check_simulation(out, prog, scenario, scene, case, src, tier)
    return out


def replay(case):
    selfcheck()
    return judge(case, case.get("tier", "quick"))


@st.composite
def cases(draw, tier="quick"):
    case = draw(_cases())
    if case.get("kind") == "prog":
        case["tier"] = tier  # the corruption / truncation plans depend on it: replay needs it
    return case


@st.composite
def _cases(draw):
    if draw(st.integers(0, 11)) == 0:
        # direct codec values (all of them are also enumerated by shard 0); drawn here too so
        # that the shrinking pass can reach their signatures
        return draw(st.sampled_from(codec_cases()))
    prog = draw(c18_gen.programs())
    return {"kind": "prog", "prog": prog, "seed": draw(st.integers(0, 10 ** 6)),
            "cseed": draw(st.integers(0, 10 ** 6)), "variant": draw(st.integers(0, 11)),
            "perturb": {"obj": draw(st.integers(0, 3)), "update": draw(st.integers(0, 9)),
                        "prop": draw(st.integers(0, 7)), "tol": draw(st.integers(0, 4)),
                        "axis": draw(st.integers(0, 2)),
                        "diag": draw(st.integers(0, 3)) == 0},
            "falsy": draw(st.integers(0, 14)),
            "stuck": {"update": draw(st.integers(0, 9)), "sign": draw(st.integers(0, 1)),
                      "mag": draw(st.integers(0, 3))}}


_CHECKED = False


def selfcheck():
    """Start-up self-checks of the harness' own instruments."""
    global _CHECKED
    if _CHECKED:
        return
    import scenic
    import scenic.core.dynamics as dynamics
    from vf.c18_sim import HSimulator

    # Scenic's stuck-behavior alarm would cancel the harness' SIGALRM based case time limit
    dynamics.stuckBehaviorWarningTimeout = 0
    try:
        canon.selftest()
    except AssertionError as e:
        raise core.HarnessError(f"vf.canon self-test failed: {e!r}")
    src = ("from vf.c18_lib import *\nbehavior B():\n    take SetVel(1, 0.5)\n"
           "    while True:\n        take Range(0, 1)\n"
           "ego = new Object at (Range(0, 1), 2, 0), with behavior B\n")
    sc = scenic.scenarioFromString(src)
    scene = generate(sc, 5)
    res = []
    for s in (1, 1, 2):
        seed_all(s)
        sim = HSimulator().simulate(scene, maxSteps=3, timestep=0.5)
        res.append(canon.canon_result(sim))
    if res[0] != res[1] or res[0] == res[2]:
        raise core.HarnessError("harness simulator is not a deterministic function of the seed")
    # hand-computed trajectory: x0, x0, x0+0.5, x0+1.0 (velocity set by the first action)
    x0 = scene.objects[0].position.x
    xs = [float.fromhex(st_[0][0][1]) for st_ in res[0][1][1]]
    if xs != [x0, x0 + 0.5, x0 + 1.0, x0 + 1.5]:
        raise core.HarnessError(f"harness simulator trajectory unexpected: {xs}")
    # stuck / drifting reports: yaw is constant in this run, so the reports are hand-computable
    hs = HSimulator(drift={"obj": 0, "prop": "yaw", "delta": 0.5, "freeze_from": 2})
    seed_all(1)
    hs.simulate(scene, maxSteps=3, timestep=0.5)
    y0 = scene.objects[0].yaw
    if [(i, u, v["yaw"]) for i, u, v in hs.reports] != \
            [(0, 0, y0), (0, 1, y0 + 0.5), (0, 2, y0 + 0.5), (0, 3, y0 + 0.5)]:
        raise core.HarnessError(f"harness simulator drift/freeze plan unexpected: {hs.reports}")
    from scenic.core.vectors import Vector

    rec = [(0, u, {"p": 1.0 + u, "v": Vector(0, 0, 0)}) for u in range(3)]
    rep = [(0, u, {"p": 1.0, "v": Vector(0, 0, 0)}) for u in range(3)]
    if [first_beyond(rec, rep, t) for t in (1.5, 0.5, 5, 1.0, 0)] != [2, 1, None, "band", 1] \
            or first_beyond(rep, rep, 0) is not None \
            or first_beyond(rec[:2], rep, 0) != "unmatched" \
            or report_diff(Vector(0, 0, 0), Vector(3, -4, 0)) != (5.0, 4.0) \
            or report_diff(3, 5) != (2, 5.0) or report_diff("a", "b")[0] != math.inf:
        raise core.HarnessError("stuck-replay oracle self-check failed")
    with trace_writes() as log:
        data = sc.sceneToBytes(scene)
    if [(a, b, t) for _, a, b, t in log["writes"]] != [(10, 18, "float")] or len(data) != 18:
        raise core.HarnessError("write tracing disagrees with the encoding")
    if cell_at([(10, 13, "int")], 11, 10) != ("int3", True) or \
            cell_at([(10, 13, "int")], 10, 10) != ("int3", False):
        raise core.HarnessError("cell_at self-check failed")
    _CHECKED = True


def plan(tier, seed, jobs):
    import os

    n = int(os.environ.get("VERIF_C18_N", 45 if tier == "quick" else 260))
    return [{"seed": seed * 1000 + k, "n": n, "codec": k == 0} for k in range(jobs)]


def run_shard(shard, tier):
    selfcheck()
    col = core.Collector(PROP, shard["id"])
    if shard.get("codec"):
        for c in codec_cases():
            col.add(c, judge_codec(c))
    import os

    shrink_s = float(os.environ.get("VERIF_SHRINK_S", 8 if tier == "quick" else 30))
    core.hyp_search(cases(tier), lambda c: judge(c, tier), shard["n"], shard["seed"], col,
                    known_sigs=shard.get("known_sigs", ()), case_timeout=120,
                    shrink_s=shrink_s, shrink=shrink_s > 0)
    return col.result()
