"""C19 — `do choose` / `do shuffle` and run-time random values follow the stated probabilities.

Hypothesis-generated behaviors and compose blocks with `do choose` / `do shuffle` (list and dict
forms, integer / dyadic / zero weights) over sub-behaviours or sub-scenarios whose preconditions
are look-ups into a step-indexed truth table (vf.tablesim), mixed with Uniform / Discrete /
DiscreteRange evaluated inside behaviors, monitors and compose blocks.  The exact law of the
observable run (actions per step, LOG events, end step, or rejection step) over *every* outcome
of the random number generator during the simulation (vf.rngenum) is compared, as Fractions,
with the law computed by a reference interpreter written from the language reference.
"""

from __future__ import annotations

from fractions import Fraction

from hypothesis import strategies as st

from vf import c19_flags, c19_rng, core, rngenum
from vf import tablesim as ts

PROP = "C19"
NEEDS_PARSER = True
FLOOR = 0.25
RULE = ("Hypothesis-generated dynamic programs: an ego behavior (or a top-level compose block) "
        "running `do choose` / `do shuffle` over 1-4 sub-behaviours (sub-scenarios), list or dict "
        "form with integer/dyadic/zero weights, duplicates, nesting one level deep, repetition in "
        "a loop, 0-3 preconditions per item that read a step-indexed truth table or a mutable flag "
        "(harness-owned or an attribute of the agent) set by other items, instantaneous items "
        "(so that the state read by preconditions changes between two picks of one time step), "
        "one behaviour object bound to a variable and offered by two statements, plus "
        "Uniform/Discrete/DiscreteRange evaluated at run time in behaviors, monitors and compose "
        "blocks (bound once to a variable or re-evaluated); the scene is generated once, every RNG "
        "outcome of the simulation is enumerated.  Non-trivial = the reference law has at least 2 "
        "outcomes and some pick had >= 2 enabled items of different weights or an enabled set "
        "that differs from the set of not-yet-run items.  Distinct = SHA-1 of the program IR.")
ASSUMPTIONS = [
    "Scenic draws run-time randomness only through the `random` module attributes patched by "
    "vf.rngenum, extended by vf.c19_rng so that affine images of random.random() compared with "
    "constants stay enumerable (a bypassing draw breaks the sum-to-1 self check -> exit 2)",
    "weights are integers or dyadic rationals, so float accumulation in the implementation is exact",
    "reference interpreter vf.props.c19.Ref: step order from docs/reference/dynamic_scenarios.rst "
    "(scenarios' compose blocks, then monitors, then the time limit, then behaviors), `do` returns "
    "within the step in which the sub-behaviour/scenario finishes",
    "a pick in which every enabled item has weight zero is not judged (the reference is silent)",
    "an item is eligible iff all of its `precondition:` lines hold at the moment of the pick "
    "(invariants are not generated: the statement speaks of preconditions only)",
    "a behaviour object that has already been run and is offered again is not judged (the "
    "reference is silent on re-running one object)",
]

MAX_LEAVES = 3000
TABLE_LEN = 48
GENEROUS_STEPS = 44


# ----------------------------------------------------------------------------------------------
# IR -> Scenic source
# ----------------------------------------------------------------------------------------------
# prog = {level: "behavior"|"scenario", defs: [{name, pre, body}], main: [stmt], monitor: bool,
#         egodraw: bool, table: {row: [0/1,...]}, maxSteps: int}
# stmt = ["take", tag] | ["wait"] | ["log", tag] | ["takedist", dist] | ["logdist", dist]
#      | ["letdist", var, dist] | ["takevar", var] | ["logvar", var]
#      | ["choose"|"shuffle", "list"|"dict", [[name, weight], ...]] | ["do", name]
#      | ["cond", row, [stmt]] | ["repeat", n, [stmt]]
#      | ["set", flag, value]            (flags start at 0)
#      | ["bind", var, name]             (var = name(): one behaviour object, items refer to "$var")
# pre  = None | row | [cond, ...] (all must hold);  cond = row | ["flag", flag, value]
# prog["flagstore"] = "harness" (vf.c19_flags) | "attr" (attribute of the ego, behaviour level)
# dist = ["uni", [v...]] | ["disc", [[v, w]...]] | ["dr", lo, hi] | ["drw", lo, [w...]]

def p_dist(d):
    if d[0] == "uni":
        return "Uniform(" + ", ".join(repr(v) for v in d[1]) + ")"
    if d[0] == "disc":
        return "Discrete({" + ", ".join(f"{v!r}: {w!r}" for v, w in d[1]) + "})"
    if d[0] == "dr":
        return f"DiscreteRange({d[1]!r}, {d[2]!r})"
    if d[0] == "drw":
        ws = ", ".join(repr(w) for w in d[2])
        return f"DiscreteRange({d[1]!r}, {d[1] + len(d[2]) - 1!r}, weights=({ws},))"
    raise ValueError(d)


def p_item(n):
    return "_" + n[1:] if n.startswith("$") else f"{n}()"


def p_items(form, items):
    if form == "list":
        return ", ".join(p_item(n) for n, _ in items)
    return "{" + ", ".join(f"{p_item(n)}: {w!r}" for n, w in items) + "}"


def pres_of(d):
    p = d["pre"]
    if p is None:
        return []
    return [p] if isinstance(p, str) else list(p)


def p_cond(c, store):
    if isinstance(c, str):
        return f"T({c!r})"
    if c[0] == "flag":
        if store == "attr":
            return f"self.{c[1]} == {c[2]!r}"
        return f"FLAG({c[1]!r}) == {c[2]!r}"
    raise ValueError(c)


def flags_of(prog):
    names = set()

    def walk(stmts):
        for s in stmts:
            if s[0] == "set":
                names.add(s[1])
            elif s[0] in ("cond", "repeat"):
                walk(s[2])

    walk(prog["main"])
    for d in prog["defs"]:
        walk(d["body"])
        for c in pres_of(d):
            if not isinstance(c, str):
                names.add(c[1])
    return sorted(names)


def p_stmts(stmts, ind, level, out, counter, store="harness"):
    pad = "    " * ind
    if not stmts:
        out.append(pad + "pass")
    for s in stmts:
        k = s[0]
        if k == "take":
            out.append(f"{pad}take {s[1]!r}")
        elif k == "wait":
            out.append(f"{pad}wait")
        elif k == "log":
            out.append(f"{pad}LOG({s[1]!r})")
        elif k == "takedist":
            out.append(f"{pad}take {p_dist(s[1])}")
        elif k == "logdist":
            out.append(f"{pad}LOG(('d', {p_dist(s[1])}))")
        elif k == "letdist":
            out.append(f"{pad}{s[1]} = {p_dist(s[2])}")
        elif k == "takevar":
            out.append(f"{pad}take {s[1]}")
        elif k == "logvar":
            out.append(f"{pad}LOG(('v', {s[1]}))")
        elif k in ("choose", "shuffle"):
            out.append(f"{pad}do {k} {p_items(s[1], s[2])}")
        elif k == "do":
            out.append(f"{pad}do {s[1]}()")
        elif k == "cond":
            out.append(f"{pad}if T({s[1]!r}):")
            p_stmts(s[2], ind + 1, level, out, counter, store)
        elif k == "repeat":
            counter[0] += 1
            out.append(f"{pad}for _i{counter[0]} in range({s[1]}):")
            p_stmts(s[2], ind + 1, level, out, counter, store)
        elif k == "set":
            if store == "attr":
                out.append(f"{pad}self.{s[1]} = {s[2]!r}")
            else:
                out.append(f"{pad}SETFLAG({s[1]!r}, {s[2]!r})")
        elif k == "bind":
            out.append(f"{pad}_{s[1]} = {s[2]}()")
        else:
            raise ValueError(k)


MONITOR = '''monitor Mon():
    while True:
        if T("mon"):
            LOG(("m", Uniform(0, 1)))
        wait
'''
EGODRAW = '''behavior Ego():
    while True:
        if T("ego"):
            take "e%d" % DiscreteRange(0, 1)
        else:
            wait
'''


def emit(prog):
    level = prog["level"]
    out = ["from vf.tablesim import T, LOG"]
    store = prog.get("flagstore", "harness")
    flags = flags_of(prog)
    if store == "attr" and level != "behavior":
        raise ValueError("attribute flags need an agent")
    if flags and store == "harness":
        out.append("from vf.c19_flags import FLAG, SETFLAG")
    counter = [0]
    for d in prog["defs"]:
        if level == "behavior":
            out.append(f"behavior {d['name']}():")
            for c in pres_of(d):
                out.append(f"    precondition: {p_cond(c, store)}")
            p_stmts(d["body"], 1, level, out, counter, store)
        else:
            out.append(f"scenario {d['name']}():")
            for c in pres_of(d):
                out.append(f"    precondition: {p_cond(c, store)}")
            out.append("    compose:")
            p_stmts(d["body"], 2, level, out, counter, store)
    if prog.get("monitor"):
        out.append(MONITOR.rstrip())
    if level == "behavior":
        out.append("behavior Main():")
        p_stmts(prog["main"], 1, level, out, counter, store)
        out.append("    terminate")
        attrs = "".join(f", with {f} 0" for f in flags) if store == "attr" else ""
        out.append("ego = new Object with behavior Main()" + attrs)
        if prog.get("monitor"):
            out.append("require monitor Mon()")
    else:
        if prog.get("egodraw"):
            out.append(EGODRAW.rstrip())
        out.append("scenario Main():")
        out.append("    setup:")
        out.append("        ego = new Object" + (" with behavior Ego()" if prog.get("egodraw") else ""))
        if prog.get("monitor"):
            out.append("        require monitor Mon()")
        out.append("    compose:")
        p_stmts(prog["main"], 2, level, out, counter, store)
    return "\n".join(out) + "\n"


# ----------------------------------------------------------------------------------------------
# Reference interpreter
# ----------------------------------------------------------------------------------------------

class Reject(Exception):
    pass


class Undefined(Exception):
    """The statement does not say what happens (every enabled item has weight zero)."""


class Finish(Exception):
    """`terminate` executed by the ego's behavior."""


class Ref:
    def __init__(self, prog, en):
        self.prog = prog
        self.en = en
        self.defs = {d["name"]: d for d in prog["defs"]}
        self.table = prog["table"]
        self.flags = set()

    def cell(self, row):
        return bool(self.table[row][self.t])

    def holds(self, c):
        if isinstance(c, str):
            return self.cell(c)
        if c[0] == "flag":
            return self.state.get(c[1], 0) == c[2]
        raise ValueError(c)

    def lookup(self, item):
        """Definition offered by an item: a class name, or "$var" = a bound behaviour object."""
        if item.startswith("$"):
            return self.defs[self.bound[item]["def"]]
        return self.defs[item]

    def eligible(self, item):
        return all(self.holds(c) for c in pres_of(self.lookup(item)))

    def draw(self, d):
        if d[0] == "uni":
            return d[1][self.en.choose([Fraction(1, len(d[1]))] * len(d[1]))]
        if d[0] == "disc":
            return d[1][self.en.choose([Fraction(w) for _, w in d[1]])][0]
        if d[0] == "dr":
            n = d[2] - d[1] + 1
            return d[1] + self.en.choose([Fraction(1, n)] * n)
        if d[0] == "drw":  # integer low + i with probability proportional to weights[i]
            return d[1] + self.en.choose([Fraction(w) for w in d[2]])
        raise ValueError(d)

    def pick(self, form, remaining, polls):
        """One pick among `remaining` = [(index, item, weight)].

        `polls` remembers, per behaviour/scenario *object* offered by the statement being executed
        (index -> (step, eligible)), the previous time its preconditions were consulted: used only
        to classify the case, never to decide."""
        enabled = []
        for it in remaining:
            if it[1].startswith("$"):
                inst = self.bound[it[1]]
                if inst["started"]:
                    raise Undefined()  # re-offering an object that has already run
                memo, key = inst["polls"], 0
            else:
                memo, key = polls, it[0]
            ok = self.eligible(it[1])
            pres = pres_of(self.lookup(it[1]))
            if not ok and len(pres) >= 2 and self.holds(pres[0]):
                self.flags.add("later-precondition-decides")
            prev = memo.get(key)
            if prev is not None and prev[0] == self.t:
                self.flags.add("repolled-within-step")
                if prev[1] != ok:
                    self.flags.add("eligibility-changed-within-step")
                    if it[1].startswith("$"):
                        self.flags.add("shared-object-eligibility-changed-within-step")
            memo[key] = (self.t, ok)
            if ok:
                enabled.append(it)
        if not enabled:
            raise Reject()
        ws = [Fraction(1) if form == "list" else Fraction(it[2]) for it in enabled]
        if all(w == 0 for w in ws):
            raise Undefined()
        if len(enabled) >= 2 and len({w for w in ws}) >= 2:
            self.flags.add("weights-differ")
        if len(enabled) != len(remaining):
            self.flags.add("enabled!=remaining")
        if len(enabled) >= 2:
            self.flags.add("real-pick")
        return enabled[self.en.choose(ws)]

    def run(self, stmts, env):
        """Generator: yields the action (or None) of every consumed step."""
        for s in stmts:
            k = s[0]
            if k == "take":
                yield s[1]
            elif k == "wait":
                yield None
            elif k == "log":
                self.log.append((self.t, s[1]))
            elif k == "takedist":
                yield self.draw(s[1])
            elif k == "logdist":
                self.log.append((self.t, ("d", self.draw(s[1]))))
            elif k == "letdist":
                env[s[1]] = self.draw(s[2])
            elif k == "takevar":
                yield env[s[1]]
            elif k == "logvar":
                self.log.append((self.t, ("v", env[s[1]])))
            elif k == "do":
                yield from self.invoke(s[1])
            elif k == "choose":
                items = [(i, n, w) for i, (n, w) in enumerate(s[2])]
                it = self.pick(s[1], items, {})
                yield from self.invoke(it[1])
            elif k == "shuffle":
                remaining = [(i, n, w) for i, (n, w) in enumerate(s[2])]
                polls = {}
                while remaining:
                    it = self.pick(s[1], remaining, polls)
                    remaining.remove(it)
                    yield from self.invoke(it[1])
            elif k == "set":
                self.state[s[1]] = s[2]
            elif k == "bind":
                self.bound["$" + s[1]] = {"def": s[2], "started": False, "polls": {}}
            elif k == "cond":
                if self.cell(s[1]):
                    yield from self.run(s[2], env)
            elif k == "repeat":
                for _ in range(s[1]):
                    yield from self.run(s[2], env)
            else:
                raise ValueError(k)

    def invoke(self, name):
        d = self.lookup(name)
        if name.startswith("$"):
            if self.bound[name]["started"]:
                raise Undefined()
            self.bound[name]["started"] = True
        if not self.eligible(name):
            raise Reject()
        yield from self.run(d["body"], {})

    def main_behavior(self):
        yield from self.run(self.prog["main"], {})
        raise Finish()

    def simulate(self):
        """One run; returns the observable outcome."""
        prog = self.prog
        self.log = []
        self.state = {}  # flags, all 0 at the start of every simulation
        self.bound = {}
        mlog, actions = [], []
        L = prog["maxSteps"]
        behavior_level = prog["level"] == "behavior"
        main = self.main_behavior() if behavior_level else self.run(prog["main"], {})
        self.t = 0
        try:
            while True:
                ended = False
                if not behavior_level:  # 1. compose block of the top-level scenario
                    try:
                        next(main)
                    except StopIteration:
                        ended = True
                if ended:
                    # the top-level scenario has stopped, and its monitors with it: step 3 runs
                    # the monitors "instantiated in the currently-running scenarios" only
                    break
                if prog.get("monitor") and self.cell("mon"):  # 3. monitors
                    mlog.append((self.t, ("m", self.draw(["uni", [0, 1]]))))
                if self.t >= L:  # 4. time limit
                    break
                act = []  # 5. behaviors
                if behavior_level:
                    try:
                        a = next(main)
                    except Finish:
                        break
                    if a is not None:
                        act.append(a)
                elif prog.get("egodraw") and self.cell("ego"):
                    act.append("e%d" % self.draw(["dr", 0, 1]))
                actions.append(tuple(act))
                self.t += 1
        except Reject:
            return ("REJECTED", self.t)
        return (tuple(actions), tuple(self.log), tuple(mlog), self.t)


def ref_law(prog):
    en = rngenum.Enumerator(MAX_LEAVES)
    ref = Ref(prog, en)

    def f():
        try:
            return ref.simulate()
        except Undefined:
            return "UNDEFINED"

    law = en.run(f)
    return law, ref.flags, en.leaves


_selfchecked = False


def selfcheck():
    global _selfchecked
    if _selfchecked:
        return
    rngenum.selftest()
    c19_rng.selftest()
    H, Q = Fraction(1, 2), Fraction(1, 4)
    defs = [{"name": "A", "pre": None, "body": [["take", "a"]]},
            {"name": "B", "pre": "p", "body": [["take", "b"]]}]
    base = {"level": "behavior", "defs": defs, "monitor": False, "egodraw": False,
            "maxSteps": 40}
    # choose {A:1, B:3} with B enabled: 1/4, 3/4; B disabled: always A
    p1 = dict(base, main=[["choose", "dict", [["A", 1], ["B", 3]]]], table={"p": [1] * 8})
    law, _, _ = ref_law(p1)
    want = {((("a",),), (), (), 1): Q, ((("b",),), (), (), 1): 3 * Q}
    if law != want:
        raise core.HarnessError(f"C19 reference self-check 1: {law}")
    law, _, _ = ref_law(dict(p1, table={"p": [0] * 8}))
    if law != {((("a",),), (), (), 1): Fraction(1)}:
        raise core.HarnessError(f"C19 reference self-check 2: {law}")
    # shuffle A, B with B enabled only from step 1 on: A first (B disabled at step 0), then B
    p3 = dict(base, main=[["shuffle", "list", [["A", 1], ["B", 1]]]], table={"p": [0, 1, 1, 1]})
    law, flags, _ = ref_law(p3)
    if law != {((("a",), ("b",)), (), (), 2): Fraction(1)} or "enabled!=remaining" not in flags:
        raise core.HarnessError(f"C19 reference self-check 3: {law}")
    # ... and never enabled: deadlock at step 1, after A ran
    law, _, _ = ref_law(dict(p3, table={"p": [0, 0, 0, 0]}))
    if law != {("REJECTED", 1): Fraction(1)}:
        raise core.HarnessError(f"C19 reference self-check 4: {law}")
    # shuffle {A:1, B:1} both enabled: two orders, 1/2 each
    law, _, _ = ref_law(dict(p3, table={"p": [1, 1, 1, 1]}))
    if law != {((("a",), ("b",)), (), (), 2): H, ((("b",), ("a",)), (), (), 2): H}:
        raise core.HarnessError(f"C19 reference self-check 5: {law}")
    # a variable bound once keeps its value; a re-evaluated distribution is independent
    p6 = dict(base, main=[["letdist", "x", ["uni", [0, 1]]], ["takevar", "x"], ["takevar", "x"],
                          ["takedist", ["uni", [0, 1]]]], table={})
    law, _, _ = ref_law(p6)
    if law != {(((x,), (x,), (y,)), (), (), 3): Q for x in (0, 1) for y in (0, 1)}:
        raise core.HarnessError(f"C19 reference self-check 6: {law}")
    # two preconditions: the item is eligible only where BOTH rows hold
    d7 = [{"name": "A", "pre": None, "body": [["take", "a"]]},
          {"name": "B", "pre": ["p", "q"], "body": [["take", "b"]]}]
    p7 = dict(base, defs=d7, main=[["choose", "list", [["A", 1], ["B", 1]]]],
              table={"p": [1] * 4, "q": [0] * 4})
    law, flags, _ = ref_law(p7)
    if law != {((("a",),), (), (), 1): Fraction(1)} or "later-precondition-decides" not in flags:
        raise core.HarnessError(f"C19 reference self-check 7: {law} {flags}")
    law, flags, _ = ref_law(dict(p7, table={"p": [0] * 4, "q": [1] * 4}))
    if law != {((("a",),), (), (), 1): Fraction(1)} or "later-precondition-decides" in flags:
        raise core.HarnessError(f"C19 reference self-check 8: {law} {flags}")
    law, _, _ = ref_law(dict(p7, table={"p": [1] * 4, "q": [1] * 4}))
    if law != {((("a",),), (), (), 1): H, ((("b",),), (), (), 1): H}:
        raise core.HarnessError(f"C19 reference self-check 9: {law}")
    # shuffle S, R, O: S sets f0 = 1 and ends without consuming a step, R needs f0 == 1.
    #   first pick among S, O (1/2 each).  S first: still step 0, R is eligible now: R or O
    #   (1/4 each).  O first: step 1, S (R not eligible), then R in the same step.
    never = {"z": [0] * 8}
    d10 = [{"name": "A", "pre": None, "body": [["set", "f0", 1], ["cond", "z", [["take", "zz"]]]]},
           {"name": "B", "pre": [["flag", "f0", 1]], "body": [["take", "r"]]},
           {"name": "C", "pre": None, "body": [["take", "o"]]}]
    p10 = dict(base, defs=d10, table=never,
               main=[["shuffle", "list", [["A", 1], ["B", 1], ["C", 1]]]])
    law, flags, _ = ref_law(p10)
    if law != {((("r",), ("o",)), (), (), 2): Q, ((("o",), ("r",)), (), (), 2): 3 * Q} \
            or "eligibility-changed-within-step" not in flags:
        raise core.HarnessError(f"C19 reference self-check 10: {law} {flags}")
    # one object of B offered twice in step 0: not eligible, then (A has set f0) eligible
    p11 = dict(base, defs=d10, table=never,
               main=[["bind", "b0", "B"], ["choose", "list", [["$b0", 1], ["A", 1]]],
                     ["choose", "dict", [["$b0", 3], ["C", 1]]]])
    law, flags, _ = ref_law(p11)
    if law != {((("r",),), (), (), 1): 3 * Q, ((("o",),), (), (), 1): Q} \
            or "shared-object-eligibility-changed-within-step" not in flags:
        raise core.HarnessError(f"C19 reference self-check 11: {law} {flags}")
    # ... and an object that has run is not judged when offered again
    law, _, _ = ref_law(dict(p11, main=p11["main"] + [["choose", "list", [["$b0", 1], ["C", 1]]]]))
    if "UNDEFINED" not in law:
        raise core.HarnessError(f"C19 reference self-check 12: {law}")
    src = emit(dict(p11, flagstore="attr"))
    for frag in ("precondition: self.f0 == 1", "self.f0 = 1", "_b0 = B()", "do choose _b0, A()",
                 "do choose {_b0: 3, C(): 1}", "with f0 0"):
        if frag not in src:
            raise core.HarnessError(f"C19 emitter self-check: {frag!r} missing in\n{src}")
    src = emit(p7)
    if "precondition: T('p')\n    precondition: T('q')" not in src:
        raise core.HarnessError(f"C19 emitter self-check (two preconditions):\n{src}")
    _selfchecked = True


# ----------------------------------------------------------------------------------------------
# Strategy
# ----------------------------------------------------------------------------------------------

WEIGHTS = st.sampled_from([1, 2, 3, 1, 0.5, 0.25, 1.5, 4])
NAMES = ["A", "B", "C", "D"]


@st.composite
def dists(draw):
    k = draw(st.sampled_from(["uni", "disc", "dr", "uni", "drw"]))
    if k == "uni":
        return ["uni", draw(st.lists(st.integers(0, 3), min_size=1, max_size=3))]
    if k == "disc":
        n = draw(st.integers(1, 3))
        vals = draw(st.permutations([0, 1, 2, 3]))[:n]
        ws = [draw(st.sampled_from([1, 2, 3, 0.5, 0.25, 0])) for _ in range(n)]
        if all(w == 0 for w in ws):
            ws[0] = 1
        return ["disc", [[v, w] for v, w in zip(vals, ws)]]
    lo = draw(st.integers(-1, 2))
    if k == "drw":
        ws = draw(st.lists(st.sampled_from([1, 2, 3, 0.5, 0.25, 0]), min_size=1, max_size=3))
        if all(w == 0 for w in ws):
            ws[-1] = 1
        return ["drw", lo, ws]
    return ["dr", lo, lo + draw(st.integers(0, 2))]


@st.composite
def programs(draw):
    level = draw(st.sampled_from(["behavior", "scenario", "behavior"]))
    beh = level == "behavior"
    # plain: preconditions read the step-indexed table only.  state: some items set flags, some
    # preconditions read them (item A ends without consuming a step after setting f0, item B's
    # preconditions read f0).  shared: additionally one object of B is bound to a variable and
    # offered by two consecutive statements.
    mode = draw(st.sampled_from(["plain", "plain", "plain", "state", "state", "shared"]))
    if mode == "shared" and not beh:
        mode = "state"
    stateful = mode != "plain"
    ndefs = draw(st.sampled_from([2, 3, 4, 3] if stateful else [2, 3, 4, 3, 2, 1]))
    store = draw(st.sampled_from(["harness", "attr"])) if stateful and beh else "harness"
    table = {}

    def row(kind):
        name = f"r{len(table)}"
        if kind == "mostly1":
            bits = [1 if draw(st.integers(0, 5)) < 5 else 0 for _ in range(10)]
        elif kind == "late":
            k = draw(st.integers(1, 3))
            bits = [0] * k + [1] * (10 - k)
        elif kind == "early":
            k = draw(st.integers(3, 9))
            bits = [1] * k + [0] * (10 - k)
        elif kind == "never":
            bits = [0] * 10
        else:
            bits = [1 if draw(st.integers(0, 2)) < 2 else 0 for _ in range(10)]
        # beyond the generated prefix the row repeats its last value
        table[name] = bits + [bits[-1]] * (TABLE_LEN - len(bits))
        return name

    def simple_body(allow_instant):
        body = []
        n = draw(st.integers(1, 2))
        tagbase = f"t{draw(st.integers(0, 99))}"
        for i in range(n):
            c = draw(st.sampled_from(["take", "take", "take", "dist", "log"]))
            if c == "take":
                body.append(["take", f"{tagbase}.{i}"] if beh else ["wait"])
                if not beh:
                    body.insert(len(body) - 1, ["log", f"{tagbase}.{i}"])
            elif c == "dist":
                body.append(["takedist", draw(dists())] if beh else ["logdist", draw(dists())])
                if not beh:
                    body.append(["wait"])
            else:
                body.append(["log", f"{tagbase}.L{i}"])
        consuming = any(s[0] in ("take", "takedist", "wait") for s in body)
        if not consuming:
            if allow_instant and draw(st.booleans()):
                # instantaneous item: syntactically a generator, never consumes a step
                body.append(["cond", row("never"), [["take", "zz"] if beh else ["wait"]]])
            else:
                body.append(["take", f"{tagbase}.z"] if beh else ["wait"])
        return body

    def a_flag():
        return draw(st.sampled_from(["f0", "f0", "f1"]))

    def a_set(flag=None):
        return ["set", flag or a_flag(), draw(st.sampled_from([1, 1, 0]))]

    def instant_setter_body(flag):
        body = [["set", flag, 1], ["cond", row("never"), [["take", "zz"] if beh else ["wait"]]]]
        if draw(st.booleans()):
            body.insert(draw(st.integers(0, 1)), ["log", f"s{draw(st.integers(0, 9))}"])
        if draw(st.integers(0, 3)) == 3:  # and another flag, so that `flag` stays 1
            body.insert(draw(st.integers(0, 1)), a_set("f1" if flag == "f0" else "f0"))
        return body

    def preconditions(reader, flag=None):
        # (the item that follows an instantaneous one is picked in the same step, typically step
        # 0: its table rows should mostly hold early, or the shuffle just deadlocks)
        pk = draw(st.sampled_from([None, "mostly1", None, None, "mostly1", None, "early", "early",
                                   "random"] if flag else
                                  [None, "mostly1", None, None, "mostly1", None, "late", "early",
                                   "random"]))
        conds = [row(pk)] if pk else []
        # further preconditions: the deciding one is then often not the first
        nextra = draw(st.sampled_from([0, 0, 0, 1, 1, 2] if conds else [0, 0, 0, 0, 0, 0, 2]))
        for _ in range(nextra):
            conds.append(row(draw(st.sampled_from(["mostly1", "early", "random", "mostly1",
                                                   "mostly1"] if flag else
                                                  ["late", "early", "random", "mostly1",
                                                   "mostly1"]))))
        if nextra and draw(st.booleans()):
            conds = list(draw(st.permutations(conds)))
        if reader:
            c = ["flag", flag or a_flag(), 1 if flag else draw(st.sampled_from([1, 1, 1, 0]))]
            conds.insert(draw(st.integers(0, len(conds))), c)
        if not conds:
            return None
        return conds[0] if len(conds) == 1 and isinstance(conds[0], str) else conds

    defs = []
    for i in range(ndefs):
        if stateful and i == 0:  # A: sets f0 and ends within the step
            pre = preconditions(False) if draw(st.integers(0, 3)) == 3 else None
            defs.append({"name": NAMES[i], "pre": pre, "body": instant_setter_body("f0")})
            continue
        if stateful and i == 1:  # B: reads f0
            defs.append({"name": NAMES[i], "pre": preconditions(True, "f0"),
                         "body": simple_body(False)})
            continue
        role = draw(st.sampled_from(["none", "reader", "setter", "instant-setter", "both",
                                     "none"])) if stateful else "none"
        if role == "instant-setter":
            body = instant_setter_body(a_flag())
        else:
            body = simple_body(True)
            if role in ("setter", "both"):
                body.insert(draw(st.sampled_from([0, len(body)])), a_set())
        defs.append({"name": NAMES[i], "pre": preconditions(role in ("reader", "both")),
                     "body": body})

    if stateful:  # a precondition waiting for a flag nobody raises is just a dead item
        raised = {s[1] for d in defs for s in d["body"] if s[0] == "set" and s[2] == 1}
        for d in defs:
            for c in pres_of(d):
                if not isinstance(c, str) and c[2] == 1 and c[1] not in raised:
                    c[1] = "f0"

    has_n = [False]

    def items(kind, first=False, outer=False):
        n = min(ndefs, draw(st.sampled_from([2, 3, 4, 2, 3] if first else [2, 3, 1, 2, 3, 4])))
        if stateful and first:  # the setter, the reader, then others
            rest = list(draw(st.permutations(NAMES[2:ndefs])))[:max(0, n - 2)]
            names = list(draw(st.permutations(NAMES[:2] + rest)))
        else:
            names = list(draw(st.permutations(NAMES[:ndefs])))[:n]
        if len(names) < 4 and draw(st.integers(0, 5)) == 5:  # the same behaviour listed twice
            names.append(draw(st.sampled_from(names)))
        if outer and has_n[0] and draw(st.integers(0, 2)) == 2:  # the nested scheduler as an item
            names[draw(st.integers(0, len(names) - 1))] = "N"
        form = draw(st.sampled_from(["dict", "list", "dict"]))
        distinct = list(draw(st.permutations([1, 2, 3, 0.5, 0.25, 1.5])))
        iid = draw(st.integers(0, 3)) == 3
        out = []
        for j, nm in enumerate(names):
            w = draw(WEIGHTS) if iid else distinct[j]
            if form == "dict" and kind == "choose" and draw(st.integers(0, 7)) == 7:
                w = 0
            out.append([nm, w])
        return form, out

    def sched(first=False, outer=False):
        kind = draw(st.sampled_from(["shuffle", "choose", "shuffle"]))
        if stateful and first and kind == "choose" and draw(st.booleans()):
            kind = "shuffle"
        form, its = items(kind, first, outer)
        return [kind, form, its]

    # one nested level: an extra definition whose body itself schedules
    if ndefs < 4 and draw(st.integers(0, 3 if not stateful else 1)) == 0:
        inner = sched()
        defs.append({"name": "N", "pre": row("mostly1") if draw(st.booleans()) else None,
                     "body": [["log", "N"], inner]})
        has_n[0] = True
    if mode == "shared":
        # _b0 = B(); do choose _b0, A()[, X()]; do choose/shuffle _b0, Y()...: the first statement
        # consults B's preconditions while f0 is 0; if it runs A (which ends within the step) the
        # second statement consults the very same object again in that step.
        form1, first_items = items("choose", True, False)
        first_items = [["$b0" if n == "B" else n, w] for n, w in first_items]
        seen = set()
        first_items = [[n, w or 1] for n, w in first_items if not (n in seen or seen.add(n))]
        kind2 = draw(st.sampled_from(["choose", "shuffle"]))
        form2, second_items = items(kind2, False, True)
        second_items = [[n, w] for n, w in second_items if n != "B"][:2]
        second_items.insert(draw(st.integers(0, len(second_items))),
                            ["$b0", draw(st.sampled_from([1, 2, 3, 0.5]))])
        main = [["bind", "b0", "B"], ["choose", form1, first_items], [kind2, form2, second_items]]
    else:
        main = [sched(True, True)]
    for _ in range(draw(st.integers(0, 2))):
        c = draw(st.sampled_from(["sched", "sched", "sched", "repeat", "dist", "var", "nested"]))
        if stateful and draw(st.integers(0, 3)) == 3:
            main.append(["set", a_flag(), draw(st.sampled_from([0, 1]))])
        if c == "sched":
            main.append(sched(False, True))
        elif c == "repeat":
            main.append(["repeat", 2, [["choose"] + list(items("choose"))]])
        elif c == "dist":
            d = draw(dists())
            main.append(["takedist", d] if beh else ["logdist", d])
            if not beh:
                main.append(["wait"])
        elif c == "var":
            d = draw(dists())
            main.append(["letdist", "x", d])
            main += [["takevar", "x"], ["takevar", "x"]] if beh else \
                [["logvar", "x"], ["wait"], ["logvar", "x"]]
        elif c == "nested" and has_n[0]:
            main.append(["do", "N"] if defs[-1]["pre"] is None else ["choose", "list", [["N", 1]]])
        else:
            main.append(sched(False, True))
    if not beh and not any(s[0] in ("wait", "choose", "shuffle", "do", "repeat") for s in main):
        main.append(["wait"])
    monitor = draw(st.integers(0, 3)) == 3
    egodraw = (not beh) and draw(st.integers(0, 3)) == 3
    if monitor:
        table["mon"] = [0] * TABLE_LEN
        for i in draw(st.lists(st.integers(0, 5), min_size=1, max_size=2)):
            table["mon"][i] = 1
    if egodraw:
        table["ego"] = [0] * TABLE_LEN
        for i in draw(st.lists(st.integers(0, 4), min_size=1, max_size=2)):
            table["ego"][i] = 1
    truncated = draw(st.integers(0, 5)) == 5
    prog = {"level": level, "defs": defs, "main": main, "monitor": monitor, "egodraw": egodraw,
            "table": table, "maxSteps": draw(st.integers(1, 4)) if truncated else GENEROUS_STEPS}
    if stateful:
        prog["flagstore"] = store
    return prog


# ----------------------------------------------------------------------------------------------
# Judge
# ----------------------------------------------------------------------------------------------

def features(prog):
    feats = set()

    def walk(stmts):
        for s in stmts:
            if s[0] in ("choose", "shuffle"):
                feats.add(f"{s[0]}:{s[1]}")
                if len(s[2]) != len({n for n, _ in s[2]}):
                    feats.add("duplicate-items")
                if any(w == 0 for _, w in s[2]) and s[1] == "dict":
                    feats.add("zero-weight")
                feats.add(f"items:{len(s[2])}")
            elif s[0] in ("takedist", "logdist", "letdist"):
                feats.add("dist:" + s[-1][0])
                if s[0] == "letdist":
                    feats.add("dist-bound-to-variable")
            elif s[0] == "repeat":
                feats.add("repeat")
                walk(s[2])
            elif s[0] == "cond":
                walk(s[2])
            elif s[0] == "do":
                feats.add("plain-do")
            elif s[0] == "set":
                feats.add("sets-flag")
            elif s[0] == "bind":
                feats.add("object-bound-to-variable")
            if s[0] in ("choose", "shuffle") and any(n == "N" for n, _ in s[2]):
                feats.add("nested-scheduler-as-item")

    walk(prog["main"])
    if flags_of(prog):
        feats.add("flagstore:" + prog.get("flagstore", "harness"))
    for d in prog["defs"]:
        walk(d["body"])
        if d["pre"]:
            feats.add("precondition")
        pres = pres_of(d)
        if len(pres) >= 2:
            feats.add("preconditions:2+")
        if any(not isinstance(c, str) for c in pres):
            feats.add("precondition-reads-flag")
        instant = not any(s[0] in ("take", "takedist", "wait", "takevar", "choose", "shuffle")
                          for s in d["body"])
        if instant and any(s[0] == "set" for s in d["body"]):
            feats.add("instant-item-sets-flag")
        if d["name"] == "N":
            feats.add("nested-scheduler")
        if not any(s[0] in ("take", "takedist", "wait", "takevar", "choose", "shuffle")
                   for s in d["body"]):
            feats.add("instant-item")
    if prog.get("monitor"):
        feats.add("monitor-draws")
    if prog.get("egodraw"):
        feats.add("ego-draws")
    if prog["maxSteps"] < GENEROUS_STEPS:
        feats.add("truncated-by-maxSteps")
    return feats


def cell_of(feats, level):
    if any(f.startswith("shuffle") for f in feats):
        kind = "shuffle"
    elif any(f.startswith("choose") for f in feats):
        kind = "choose"
    else:
        kind = "dist"
    return f"{level}:{kind}"


def canon(v):
    if isinstance(v, bool):
        return int(v)
    if isinstance(v, float) and v == int(v):
        return int(v)
    if isinstance(v, (tuple, list)):
        return tuple(canon(x) for x in v)
    return v


def judge(prog):
    selfcheck()
    out = core.Outcome()
    level = prog["level"]
    feats = features(prog)
    out.cls("level:" + level, *sorted(feats))
    cell = cell_of(feats, level)
    src = emit(prog)

    try:
        want, flags, leaves = ref_law(prog)
    except rngenum.TooManyLeaves:
        out.inconclusive = True
        out.cls("too-many-leaves")
        return out
    if "UNDEFINED" in want:
        out.cls("unjudged:all-enabled-weights-zero")
        return out

    try:
        sc = ts.compile_scenario(src)
        ts.set_table({})
        scene, _ = sc.generate(maxIterations=1, verbosity=0)
    except Exception as e:
        out.fail(f"{cell}|compile:" + core.exc_signature(e), source=src, error=repr(e)[:300])
        return out
    if ts.STATE.reads:
        raise core.HarnessError("table read during scene generation\n" + src)
    nobj = len(scene.objects)
    if nobj != 1:
        raise core.HarnessError(f"expected exactly the ego, found {nobj} objects\n{src}")

    table = prog["table"]

    def one():
        c19_flags.reset()
        r = ts.run(scene, table, prog["maxSteps"])
        if not r.accepted:
            return ("REJECTED", r.rejected_at)
        acts = tuple(tuple(canon(a) for _, al in step for a in al) for step in r.actions)
        log = tuple((t, canon(tag)) for t, tag in r.log
                    if not (isinstance(tag, tuple) and tag and tag[0] == "m"))
        mlog = tuple((t, canon(tag)) for t, tag in r.log
                     if isinstance(tag, tuple) and tag and tag[0] == "m")
        return (acts, log, mlog, r.end_time)

    en = rngenum.Enumerator(MAX_LEAVES * 2)
    try:
        with c19_rng.patched_rng(en):
            got = en.run(one)
    except rngenum.TooManyLeaves:
        out.inconclusive = True
        out.cls("too-many-leaves")
        return out
    except rngenum.OutOfFragment as e:
        raise core.HarnessError(f"continuous draw in a finite program: {e}\n{src}")
    except ts.TableError as e:
        raise core.HarnessError(f"{e}\n{src}")
    except AssertionError:
        raise
    except Exception as e:
        out.fail(f"{cell}|simulate:" + core.exc_signature(e), source=src, error=repr(e)[:300])
        return out

    rej = sum((p for k, p in want.items() if k[0] == "REJECTED"), Fraction(0))
    if rej == 1:
        out.cls("always-rejected")
    elif rej > 0:
        out.cls("rejected-sometimes")
    out.cls(*sorted("pick:" + f for f in flags))
    out.cls("leaves:%s" % ("1" if leaves == 1 else "2-9" if leaves < 10 else "10-99"
                           if leaves < 100 else "100+"))
    out.nontrivial = len(want) >= 2 and bool(flags & {"weights-differ", "enabled!=remaining"})

    if got != want:
        gk, wk = set(got), set(want)
        if gk != wk:
            only_g, only_w = gk - wk, wk - gk
            if all(k[0] == "REJECTED" for k in only_g | only_w):
                kind = "rejection-step-or-presence"
            else:
                kind = "support"
            diff = {"only_impl": [str(k) for k in sorted(only_g, key=str)[:3]],
                    "only_ref": [str(k) for k in sorted(only_w, key=str)[:3]]}
        else:
            bad = sorted((k for k in gk if got[k] != want[k]), key=str)
            kind = "prob"
            diff = {str(k): [str(got[k]), str(want[k])] for k in bad[:3]}
        out.fail(f"{cell}|law:{kind}", source=src, diff=diff, table={k: v[:12] for k, v in table.items()})
    return out


def replay(case):
    return judge(case)


def plan(tier, seed, jobs):
    n = 150 if tier == "quick" else 1500
    return [{"seed": seed * 1000 + k, "n": n} for k in range(max(jobs, 8))]


def run_shard(shard, tier):
    selfcheck()
    col = core.Collector(PROP, shard["id"])
    core.hyp_search(programs(), judge, shard["n"], shard["seed"], col,
                    known_sigs=shard.get("known_sigs", ()), case_timeout=120,
                    shrink_s=60 if tier == "quick" else 240)
    return col.result()
