"""C20 — road networks are internally consistent for every map, cached or parsed.

Every shipped OpenDRIVE map (copied to a scratch directory so that no `.snet` cache is ever
written into the repository) is parsed under several option combinations; the resulting
`Network` is judged by the predicates of vf.c20_oracle (links reciprocal, children inside
parents, point look-ups contain the point within the tolerance and respect the documented
priorities, drivable area covered, traffic direction tangent to the lane centreline), by a
parse-vs-cache differential (same network from the `.snet`, stale caches ignored), and the same
predicates are applied to networks built from mutated maps.
"""

from __future__ import annotations

import atexit
import hashlib
import math
import os
import random
import re
import shutil
import warnings

from hypothesis import strategies as st

from vf import c20_oracle as O
from vf import core

PROP = "C20"
NEEDS_PARSER = False
FLOOR = 0.30
RULE = ("Shards = (map, option combination) over all non-empty .xodr files of assets/maps; options "
        "drawn from tolerance in {0, 0.01, 0.05, 0.1, 0.2, 0.5} x fill_gaps x fill_intersections x "
        "elide_short_roads (first combination of every map = defaults).  Cases: one whole-network "
        "case per shard (link reciprocity / ownership / containment of children in parents), "
        "Hypothesis-drawn probe points (anchor = centreline, boundary, vertex, bounding box of a "
        "random element of a random class, or the seam between two adjacent top-level elements; "
        "offset = none / 1e-6 / up to 2 x tolerance / up to 6 m / up to 50 m in a random direction), "
        "parse-vs-cache scenarios drawn from a harness-owned random.Random (reload, fromPickle, "
        "one-byte-changed map, one boolean then one numeric option changed, rewritten cache) "
        "and mutated maps (numeric attribute x (1 +- 1 %), <link> removed, lane id duplicated).  "
        "Non-trivial = the network has >= 1 intersection, or a probe point lies in >= 2 overlapping "
        "elements or within max(tolerance, 1 mm) of an element boundary; distinct = SHA-1 of the "
        "case (map, options, descriptors).")
ASSUMPTIONS = [
    "shapely/GEOS point-polygon distance and predicates are the trusted geometry base (the oracle "
    "applies them to single element polygons, never through the network's R-tree or findPointIn)",
    "distances within 1e-7 m of 0 or of `tolerance`, and the band 0.99..1.0 x tolerance (the "
    "tolerant pass tests a 64-gon inscribed in the tolerance circle), are not judged",
    "children may stick out of parents by 0.5 m, the figure of the construction-time assertions in "
    "roads.py (a bound derived from `tolerance` is refuted by Town04: road sections are made "
    "disjoint, lane sections are not); aggregate regions: tolerance + 0.01 m as asserted by Network",
    "the sign of a lane's direction is anchored independently of its centreline by the "
    "LinearElement docstring (left edge on the left, right edge on the right, both running "
    "forward), judged on 40-60 % chords of lanes and lane sections only when both edges agree",
    "a map/option combination on which the parser raises (including the construction-time "
    "assertions of roads.py) builds no network and is outside the statement: classed, not judged",
    "Network.fromOpenDrive is wrapped by a call counter (observation only) to tell a cache load "
    "from a re-parse",
]

# maps below this size also get mutated variants (every mutated case costs one parse)
SMALL_MAP_BYTES = {"quick": 60_000, "thorough": 300_000}
QUICK_MAPS = ("suspect_geometries", "zero_width", "Issue274", "CulDeSac", "shoulders",
              "Straight2LaneSame", "sample1.1", "cubetown", "Issue189", "Town01")
TOLERANCES = (0, 0.01, 0.05, 0.05, 0.1, 0.2, 0.5)

# exceptions the parser raises deliberately, with a message, on input it does not accept
CLEAN_ERRORS = ("ValueError", "NotImplementedError", "ParseError", "RuntimeError")


# ---------------------------------------------------------------------------------------------
# maps, scratch space, building networks
# ---------------------------------------------------------------------------------------------

def maps_root():
    r = os.path.join(os.environ.get("VERIF_REPO", "/repo"), "assets", "maps")
    return r if os.path.isdir(r) else "/repo/assets/maps"


def all_maps():
    """[(relative path, size)] of the non-empty maps, smallest first; plus the skipped ones."""
    root = maps_root()
    found, skipped = [], []
    for d, _, files in sorted(os.walk(root)):
        for f in sorted(files):
            if f.endswith(".xodr"):
                p = os.path.join(d, f)
                rel = os.path.relpath(p, root)
                (found if os.path.getsize(p) > 0 else skipped).append((rel, os.path.getsize(p)))
    found.sort(key=lambda t: (t[1], t[0]))
    return found, [s[0] for s in skipped]


_SCRATCH = None


def scratch():
    global _SCRATCH
    if _SCRATCH is None or not os.path.isdir(_SCRATCH):
        _SCRATCH = f"/var/tmp/vf-c20-{os.getpid()}"
        os.makedirs(_SCRATCH, exist_ok=True)
        atexit.register(cleanup)
    return _SCRATCH


def cleanup():
    global _SCRATCH
    if _SCRATCH and os.path.isdir(_SCRATCH):
        shutil.rmtree(_SCRATCH, ignore_errors=True)
    _SCRATCH = None


def fresh_dir(tag):
    d = os.path.join(scratch(), tag)
    shutil.rmtree(d, ignore_errors=True)
    os.makedirs(d)
    return d


def map_bytes(rel):
    with open(os.path.join(maps_root(), rel), "rb") as f:
        return f.read()


_COUNT = {"n": 0, "installed": False}


def install_counter():
    """Count calls of Network.fromOpenDrive (fromFile looks the handler up on the class at every
    call), so that 'loaded from cache' and 're-parsed' can be told apart."""
    from scenic.domains.driving.roads import Network

    if _COUNT["installed"]:
        return
    import inspect

    orig = Network.fromOpenDrive.__func__
    _COUNT["defaults"] = {k: v.default for k, v in inspect.signature(orig).parameters.items()
                          if v.default is not inspect.Parameter.empty}

    def counted(cls, *a, **k):
        _COUNT["n"] += 1
        return orig(cls, *a, **k)

    Network.fromOpenDrive = classmethod(counted)
    _COUNT["installed"] = True


def load(path, opts, **kw):
    """Network.fromFile with warnings silenced -> (network, number of real parses)."""
    from scenic.domains.driving.roads import Network

    install_counter()
    n0 = _COUNT["n"]
    with warnings.catch_warnings():
        warnings.simplefilter("ignore")
        net = Network.fromFile(path, **kw, **opts)
    return net, _COUNT["n"] - n0


_NETS = {}


def opts_key(opts):
    return tuple(sorted(opts.items()))


def get_net(rel, opts):
    """Parsed network of an unmutated map (memoised inside the process; always parsed from the
    current tree, never from a cache) -> (net, index) or an exception."""
    k = (rel, opts_key(opts))
    if k not in _NETS:
        if len(_NETS) >= 2:
            _NETS.clear()
        d = fresh_dir("net-" + core.digest([rel, sorted(opts.items())]))
        p = os.path.join(d, os.path.basename(rel))
        with open(p, "wb") as f:
            f.write(map_bytes(rel))
        try:
            net, _ = load(p, opts, useCache=False, writeCache=False)
            _NETS[k] = (net, O.Index(net))
        except Exception as e:  # classed by the caller
            _NETS[k] = e
    return _NETS[k]


def build_failure(out, e, mutated=False):
    """A map on which no network is built is outside the statement: class it."""
    name = type(e).__name__
    if name in CLEAN_ERRORS:
        out.cls(("mutated:" if mutated else "") + "clean-error:" + name)
    else:
        out.cls(("unjudged:parser-crash:" if mutated else "unjudged:build-refused:")
                + core.exc_signature(e))
    return out


# ---------------------------------------------------------------------------------------------
# judges
# ---------------------------------------------------------------------------------------------

def add_violations(out, cell, V, **ctx):
    seen = set()
    for pred, detail in V:
        sig = f"{cell}|{pred}"
        if sig in seen:
            continue
        seen.add(sig)
        n = sum(1 for p, _ in V if p == pred)
        out.fail(sig, count_in_case=n, **ctx, **detail)


def judge_network(net, ix, out, ctx):
    """Whole-network predicates."""
    add_violations(out, "links", O.check_links(net), **ctx)
    V, worst = O.check_containment(net)
    add_violations(out, "contain", V, **ctx)
    V, judged = O.check_edge_sides(net)
    add_violations(out, "direction", V, **ctx)
    if net.intersections:
        out.cls("has-intersection")
    if any(not (r.forwardLanes and r.backwardLanes) for r in net.allRoads):
        out.cls("has-one-way-road")
    if any(len(l.sections) > 1 for l in net.lanes):
        out.cls("has-multi-section-lane")
    if any(len(g.lanes) >= 3 for g in net.laneGroups):
        out.cls("has-group-with>=3-lanes")
    if net.shoulders:
        out.cls("has-shoulder")
    if net.sidewalks:
        out.cls("has-sidewalk")
    return bool(net.intersections)


def judge_probes(net, ix, probes, out, ctx):
    nontrivial = False
    for d in probes:
        x, y, anchor_uid = probe_xy(net, ix, d)
        V, info = O.check_probe(ix, x, y)
        add_violations(out, "lookup", [(p, dd) for p, dd in V if not p.startswith("direction")
                                       and not p.startswith("coverage")],
                       point=[x, y], probe=d, **ctx)
        add_violations(out, "coverage", [(p, dd) for p, dd in V if p.startswith("coverage")],
                       point=[x, y], probe=d, **ctx)
        add_violations(out, "direction", [(p, dd) for p, dd in V if p.startswith("direction")],
                       point=[x, y], probe=d, **ctx)
        out.cls("probe")
        if info["overlap"] >= 2:
            out.cls("probe:in>=2-elements")
        if info["near_boundary"]:
            out.cls("probe:near-boundary")
        if info.get("in_drivable"):
            out.cls("probe:in-drivable")
        if info.get("direction"):
            out.cls("probe:direction-" + str(info["direction"]))
        if info.get("sharp_backward"):
            out.cls("probe:direction-sharp-backward-lane")
        for k in ("prio_judged", "tolerant_hit", "off_network"):
            if info.get(k):
                out.cls("probe:" + k)
        if info["overlap"] >= 2 or info["near_boundary"]:
            nontrivial = True
    return nontrivial


def seams(net, ix):
    """Pairs of top-level elements of different classes that touch: the generator aims probe
    points at their seam, where the documented priority of the tolerant pass matters."""
    if getattr(ix, "seams", None) is None:
        import shapely

        tops = list(net.intersections) + list(net.roads) + list(net.shoulders) + \
            list(net.sidewalks)
        polys = [e.polygons for e in tops]
        res = []
        if polys:
            tree = shapely.STRtree(polys)
            reach = max(float(net.tolerance), 0.01)
            for i, p in enumerate(polys):
                for j in sorted(tree.query(p.buffer(reach), predicate="intersects")):
                    if j > i and type(tops[i]) is not type(tops[j]):
                        res.append((tops[i], tops[j]))
        ix.seams = res
    return ix.seams


def probe_xy(net, ix, d):
    if d["anchor"] == "seam":
        import shapely

        prs = seams(net, ix)
        if prs:
            a, b = prs[d["k"] % len(prs)]
            t = 0.6 * max(float(net.tolerance), 0.01)
            sl = a.polygons.buffer(t).intersection(b.polygons.buffer(t))
            if not sl.is_empty and sl.boundary.length > 0:
                q = sl.boundary.interpolate(float(d["u"]), normalized=True)
                scale = {"none": 0.0, "tiny": 1e-6, "tol": 2.0 * max(float(net.tolerance), 0.01),
                         "lane": 6.0, "far": 50.0}[d["off"]]
                r = float(d["r"]) * scale * 0.3
                th = 2 * math.pi * float(d["th"])
                return float(q.x + r * math.cos(th)), float(q.y + r * math.sin(th)), a.uid
        d = dict(d, anchor="boundary")
    return O.probe_point(net, d)


def judge(case):
    O.selfcheck_once()
    kind = case["kind"]
    if kind == "net":
        return judge_net_case(case)
    if kind == "probe":
        return judge_probe_case(case)
    if kind == "cache":
        return judge_cache_case(case)
    if kind == "mutated":
        return judge_mutated_case(case)
    raise core.HarnessError(f"unknown case kind {kind!r}")


def replay(case):
    try:
        return judge(case)
    finally:
        cleanup()


def judge_net_case(case):
    out = core.Outcome()
    got = get_net(case["map"], case["opts"])
    out.cls("kind:net")
    if isinstance(got, Exception):
        return build_failure(out, got)
    net, ix = got
    out.nontrivial = judge_network(net, ix, out, {"map": case["map"], "opts": case["opts"]})
    return out


def judge_probe_case(case):
    out = core.Outcome()
    got = get_net(case["map"], case["opts"])
    out.cls("kind:probe")
    if isinstance(got, Exception):
        return build_failure(out, got)
    net, ix = got
    nt = judge_probes(net, ix, case["probes"], out, {"map": case["map"], "opts": case["opts"]})
    out.nontrivial = nt or bool(net.intersections)
    return out


# -- cache -------------------------------------------------------------------------------------

WIDTH_RE = re.compile(rb'(<width\b[^>]*?\ba=")(-?\d+)\.(\d)')


def one_byte_change(data, idx):
    """Change one byte of the map so that the parsed geometry changes: the first decimal of the
    `a` coefficient of the idx-th <width> record (lane 10 cm wider or 90 cm narrower)."""
    ms = list(WIDTH_RE.finditer(data))
    if not ms:
        return None
    m = ms[idx % len(ms)]
    pos = m.start(3)
    d = data[pos] - 48
    return data[:pos] + bytes([48 + (d + 1) % 10]) + data[pos + 1:]


def effective(opts):
    """The options with the defaults of Network.fromOpenDrive's signature filled in."""
    install_counter()
    return {**_COUNT["defaults"], **opts}


def judge_cache_case(case):
    from scenic.domains.driving.roads import Network

    out = core.Outcome()
    out.cls("kind:cache")
    rel, opts = case["map"], case["opts"]
    ctx = {"map": rel, "opts": opts}
    data = map_bytes(rel)
    d = fresh_dir("cache-" + core.digest(case))
    name = os.path.basename(rel)
    p = os.path.join(d, name)
    snet = os.path.splitext(p)[0] + Network.pickledExt
    ref_dir = os.path.join(d, "ref")
    os.makedirs(ref_dir)
    pref = os.path.join(ref_dir, name)

    def write(path, b):
        with open(path, "wb") as f:
            f.write(b)

    def fresh(b, o):
        """Reference: parse in a directory that never holds a cache."""
        write(pref, b)
        n, _ = load(pref, o, useCache=False, writeCache=False)
        return n

    try:
        write(p, data)
        try:
            n0, calls = load(p, opts, useCache=False, writeCache=True)
        except Exception as e:
            return build_failure(out, e)
        if calls != 1:
            out.fail("cache|useCache-false-did-not-parse", calls=calls, **ctx)
        if not os.path.exists(snet):
            out.fail("cache|not-written", **ctx)
            return out
        fp0 = O.fingerprint(n0)
        ix0 = O.Index(n0)
        pts = [probe_xy(n0, ix0, dd)[:2] for dd in case["probes"]]
        ans0 = O.answers(n0, pts)
        # two parses of the same bytes must agree, else the differential says nothing: the
        # network memoised for this shard was parsed independently from the same map
        memo = get_net(rel, opts)
        if isinstance(memo, Exception) or O.fingerprint(memo[0]) != fp0:
            out.cls("unjudged:parse-not-deterministic")
            out.inconclusive = True
            return out

        def same(tag, n, fp_ref, ans_ref):
            fp = O.fingerprint(n)
            if fp != fp_ref:
                out.fail(f"cache|{tag}:network-differs", diff=O.fp_diff(fp_ref, fp), **ctx)
                return False
            a = O.answers(n, pts)
            if a != ans_ref:
                i = next(i for i in range(len(pts)) if a[i] != ans_ref[i])
                out.fail(f"cache|{tag}:answers-differ", point=pts[i], expected=ans_ref[i],
                         got=a[i], **ctx)
                return False
            return True

        # (1) reload from the cache written for exactly this map and these options
        n1, calls = load(p, opts, useCache=True, writeCache=False)
        if calls == 0:
            out.cls("cache:reloaded")
            same("reload", n1, fp0, ans0)
        else:
            out.cls("cache:valid-cache-not-used")
            same("reload", n1, fp0, ans0)
        n1b = Network.fromPickle(snet)
        same("fromPickle", n1b, fp0, ans0)
        n1c, calls = load(snet, {}, useCache=True, writeCache=False)
        same("fromFile-snet", n1c, fp0, ans0)

        # (2) the map changes by one byte, the old cache lies next to it
        changed = one_byte_change(data, case["edit"])
        if changed is not None:
            try:
                nref = fresh(changed, opts)
            except Exception as e:
                nref = None
                out.cls("cache:changed-map-does-not-build")
            if nref is not None:
                fpr = O.fingerprint(nref)
                write(p, changed)
                n2, calls = load(p, opts, useCache=True, writeCache=False)
                if calls == 0:
                    # statement: "the cache is ignored when the map ... differ[s]"
                    out.fail("cache|stale-map:cache-used-although-map-changed", **ctx)
                if fpr == fp0:
                    out.cls("cache:map-change-invisible")
                else:
                    out.cls("cache:stale-map")
                same("stale-map", n2, fpr, O.answers(nref, pts))
                write(p, data)

        # (3) the options change, the old cache lies next to the map
        cur = opts
        for vi, opts2 in enumerate(case["opts2"]):
            try:
                nref = fresh(data, opts2)
            except Exception as e:
                out.cls("cache:changed-options-do-not-build")
                continue
            fpr = O.fingerprint(nref)
            ansr = O.answers(nref, pts)
            out.cls("cache:options-change-invisible" if fpr == fp0 else "cache:stale-options")
            n3, calls = load(p, opts2, useCache=True, writeCache=True)
            if calls == 0 and effective(opts2) != effective(cur):
                # statement: "the cache is ignored when ... the map options differ"
                out.fail("cache|stale-options:cache-used-although-options-changed",
                         cached_for=cur, opts2=opts2, **ctx)
            same("stale-options", n3, fpr, ansr)
            # (4) the cache has been rewritten for the new options
            n4, calls = load(p, opts2, useCache=True, writeCache=False)
            if calls == 0:
                out.cls("cache:rewritten-reloaded")
            same("rewritten", n4, fpr, ansr)
            cur = opts2
        nt = bool(n0.intersections)
        for (x, y) in pts:
            info = O.check_probe(ix0, x, y)[1]
            nt = nt or info["overlap"] >= 2 or info["near_boundary"]
        out.nontrivial = nt
        return out
    finally:
        shutil.rmtree(d, ignore_errors=True)


# -- mutated maps --------------------------------------------------------------------------------

NUMERIC = {
    "geometry": ("x", "y", "hdg", "length"),
    "arc": ("curvature",),
    "spiral": ("curvStart", "curvEnd"),
    "poly3": ("a", "b", "c", "d"),
    "paramPoly3": ("aU", "bU", "cU", "dU", "aV", "bV", "cV", "dV"),
    "width": ("sOffset", "a", "b", "c", "d"),
    "laneOffset": ("s", "a", "b", "c", "d"),
    "laneSection": ("s",),
    "road": ("length",),
}


def mutate_map(data, edits):
    """Apply the edits to the XML document -> (bytes, list of what was done)."""
    import io
    import xml.etree.ElementTree as ET

    root = ET.fromstring(data)
    done = []
    nums = [(el, a) for el in root.iter() for a in NUMERIC.get(el.tag, ()) if el.get(a) is not None]
    parent = {c: p for p in root.iter() for c in p}
    for e in edits:
        k = e["kind"]
        if k == "num" and nums:
            el, a = nums[e["idx"] % len(nums)]
            try:
                v = float(el.get(a))
            except ValueError:
                continue
            el.set(a, repr(v * e["factor"]))
            done.append(f"{el.tag}.{a}*{e['factor']}")
        elif k == "rmlink":
            links = [el for el in root.iter("link") if el in parent]
            if links:
                el = links[e["idx"] % len(links)]
                par = parent[el]
                par.remove(el)
                del parent[el]
                done.append(f"rmlink-under-{par.tag}")
        elif k == "duplane":
            lanes = [el for el in root.iter("lane") if el.get("id") not in (None, "0")]
            if lanes:
                el = lanes[e["idx"] % len(lanes)]
                sibs = [s for s in parent[el] if s.tag == "lane" and s is not el]
                if sibs:
                    el.set("id", sibs[e["idx"] % len(sibs)].get("id"))
                    done.append("duplane")
    buf = io.BytesIO()
    ET.ElementTree(root).write(buf, encoding="utf-8", xml_declaration=True)
    return buf.getvalue(), done


def judge_mutated_case(case):
    out = core.Outcome()
    out.cls("kind:mutated")
    rel, opts = case["map"], case["opts"]
    data, done = mutate_map(map_bytes(rel), case["edits"])
    for t in done:
        out.cls("mutated:edit:" + re.sub(r"[*].*", "", t).split(".")[0])
    d = fresh_dir("mut-" + core.digest(case))
    p = os.path.join(d, os.path.basename(rel))
    try:
        with open(p, "wb") as f:
            f.write(data)
        try:
            net, _ = load(p, opts, useCache=False, writeCache=False)
        except Exception as e:
            return build_failure(out, e, mutated=True)
        out.cls("mutated:built")
        ix = O.Index(net)
        ctx = {"map": rel, "opts": opts, "edits": case["edits"]}
        nt = judge_network(net, ix, out, ctx)
        nt2 = judge_probes(net, ix, case["probes"], out, ctx)
        out.nontrivial = nt or nt2
        return out
    finally:
        shutil.rmtree(d, ignore_errors=True)


# ---------------------------------------------------------------------------------------------
# strategies
# ---------------------------------------------------------------------------------------------

UNIT = st.floats(0, 1, allow_nan=False, width=32)


def probe_descriptors():
    return st.fixed_dictionaries({
        "cls": st.sampled_from(O.CLASSES),
        "k": st.integers(0, 10 ** 6),
        "anchor": st.sampled_from(O.ANCHORS + ("seam", "seam", "boundary")),
        "u": UNIT, "v": UNIT,
        "off": st.sampled_from(O.OFFSETS + ("tol", "tol", "lane")),
        "r": UNIT, "th": UNIT,
    })


def probe_cases(rel, opts):
    return st.fixed_dictionaries({
        "kind": st.just("probe"), "map": st.just(rel), "opts": st.just(opts),
        "probes": st.lists(probe_descriptors(), min_size=1, max_size=3),
    })


def rand_probe(rng):
    return {"cls": rng.choice(O.CLASSES), "k": rng.randrange(10 ** 6),
            "anchor": rng.choice(O.ANCHORS + ("seam", "seam", "boundary")),
            "u": rng.random(), "v": rng.random(),
            "off": rng.choice(O.OFFSETS + ("tol", "tol", "lane")),
            "r": rng.random(), "th": rng.random()}


def one_option_changed(rng, opts, keys):
    """The same options with exactly one of them (from `keys`) changed, added or dropped."""
    values = {"tolerance": (0.01, 0.05, 0.1, 0.2, 0.01, 0.1, 0, 0.5), "ref_points": (20, 12, 21),
              "fill_gaps": (True, False), "fill_intersections": (True, False),
              "elide_short_roads": (True, False)}
    for _ in range(100):
        k = rng.choice(keys)
        if k in opts and rng.random() < 0.25:
            o = {x: y for x, y in opts.items() if x != k}
        else:
            o = {**opts, k: rng.choice(values[k])}
        if effective(o) != effective(opts):
            return o
    raise core.HarnessError("could not draw a changed option set")


def gen_cache_case(rng, rel, opts):
    """Cache scenarios are few and expensive: they are drawn from a random.Random owned by the
    harness (a Hypothesis run of one or two examples would only ever produce the minimal one).
    Two stale-option variants per case, each differing from the options the cache on disk
    was written for in exactly one option: first a boolean one, then a numeric one."""
    first = one_option_changed(rng, opts, ("fill_gaps", "fill_intersections",
                                           "elide_short_roads"))
    opts2 = [first, one_option_changed(rng, first, ("tolerance", "tolerance", "ref_points"))]
    return {"kind": "cache", "map": rel, "opts": opts,
            "opts2": opts2,
            "edit": rng.randrange(10 ** 6),
            "probes": [rand_probe(rng) for _ in range(8)]}


def edits():
    return st.one_of(
        st.fixed_dictionaries({"kind": st.just("num"), "idx": st.integers(0, 10 ** 6),
                               "factor": st.sampled_from([1.01, 0.99, 1.001, 0.999, 1.0])}),
        st.fixed_dictionaries({"kind": st.just("num"), "idx": st.integers(0, 10 ** 6),
                               "factor": st.sampled_from([1.01, 0.99])}),
        st.fixed_dictionaries({"kind": st.just("rmlink"), "idx": st.integers(0, 10 ** 6)}),
        st.fixed_dictionaries({"kind": st.just("duplane"), "idx": st.integers(0, 10 ** 6)}),
    )


def mutated_cases(rel, opts):
    return st.fixed_dictionaries({
        "kind": st.just("mutated"), "map": st.just(rel), "opts": st.just(opts),
        "edits": st.lists(edits(), min_size=1, max_size=3),
        "probes": st.lists(probe_descriptors(), min_size=4, max_size=4),
    })


# ---------------------------------------------------------------------------------------------
# plan / shards
# ---------------------------------------------------------------------------------------------

def draw_options(rng):
    o = {}
    if rng.random() < 0.85:
        o["tolerance"] = rng.choice(TOLERANCES)
    for k in ("fill_gaps", "fill_intersections", "elide_short_roads"):
        if rng.random() < 0.6:
            o[k] = rng.random() < 0.5
    return o


DRIVABLE = ("driving", "entry", "exit", "offRamp", "onRamp", "connectingRamp")


def max_lanes_per_side(rel):
    """Largest number of drivable lanes on one side of a lane section (read from the XML)."""
    import xml.etree.ElementTree as ET

    best = 0
    for sec in ET.fromstring(map_bytes(rel)).iter("laneSection"):
        for side in ("left", "right"):
            el = sec.find(side)
            if el is not None:
                best = max(best, sum(1 for l in el.iter("lane") if l.get("type") in DRIVABLE))
    return best


def plan(tier, seed, jobs):
    maps, skipped = all_maps()
    if not maps:
        raise core.HarnessError("no non-empty .xodr map found under " + maps_root())
    if tier == "quick":
        maps = [m for m in maps if os.path.splitext(os.path.basename(m[0]))[0] in QUICK_MAPS]
        ncombo, nprobe, ncache, nmut = 3, 120, 1, 15
    else:
        ncombo, nprobe, ncache, nmut = 8, 400, 2, 30
    if not any(max_lanes_per_side(rel) >= 3 for rel, _ in maps):
        # lane-level adjacency / merge predicates are vacuous on roads with < 3 lanes a side
        raise core.HarnessError("map selection contains no road with >= 3 drivable lanes per "
                                "direction")
    shards = []
    for rel, size in maps:
        rng = random.Random(f"C20:{seed}:{rel}")
        combos = [{}]
        guard = 0
        while len(combos) < ncombo and guard < 200:
            guard += 1
            o = draw_options(rng)
            if o not in combos:
                combos.append(o)
        for ci, o in enumerate(combos):
            shards.append({
                "map": rel, "opts": o, "size": size,
                "seed": seed * 100000 + (int(hashlib.sha1(rel.encode()).hexdigest(), 16) % 1000) * 10 + ci,
                "nprobe": nprobe,
                "ncache": ncache if (ci < 2 or tier != "quick") else 0,
                "nmut": nmut if size <= SMALL_MAP_BYTES[tier] else 0,
                "skipped_maps": skipped,
            })
    # big maps first so that the pool is balanced
    shards.sort(key=lambda s: -s["size"])
    return shards


def run_shard(shard, tier):
    O.selfcheck()
    col = core.Collector(PROP, shard["id"])
    rel, opts = shard["map"], shard["opts"]
    known = shard.get("known_sigs", ())
    shrink_s = 10 if tier == "quick" else 60
    try:
        case = {"kind": "net", "map": rel, "opts": opts}
        out = judge(case)
        col.add(case, out)
        built = not isinstance(get_net(rel, opts), Exception)
        if built:
            core.hyp_search(probe_cases(rel, opts), judge, shard["nprobe"], shard["seed"], col,
                            known_sigs=known, case_timeout=120, shrink_s=shrink_s)
            rng = random.Random(f"C20:cache:{shard['seed']}")
            for _ in range(shard["ncache"]):
                case = gen_cache_case(rng, rel, opts)
                try:
                    with core.time_limit(900):
                        out = judge(case)
                except core.CaseTimeout:
                    out = core.Outcome(inconclusive=True, classes=["timeout"])
                col.add(case, out)
        if shard["nmut"] and built:
            core.hyp_search(mutated_cases(rel, opts), judge, shard["nmut"], shard["seed"] + 2,
                            col, known_sigs=known, case_timeout=120, shrink_s=shrink_s)
        if shard.get("skipped_maps"):
            col.extra["skipped_empty_maps_note"] = "empty in this snapshot, skipped: " + \
                ", ".join(shard["skipped_maps"])
    finally:
        _NETS.clear()
        cleanup()
    return col.result()
