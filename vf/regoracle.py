"""Independent membership / distance / measure oracle for *primitive* Scenic regions.

Every shape is rebuilt from its defining parameters (never from the Scenic object): analytic
signed distances for boxes, prisms (extruded generator polygons), discs, sectors, rectangles;
half-space / point-triangle computations on the *plain arrays* of `trimesh.creation.icosphere`
for spheroids (the documented shape of SpheroidRegion is that mesh, scaled); shapely only on
polygons constructed by the generator.  Planar shapes carry their height: membership needs
`p.z == z`.  Composed regions are judged by Boolean combination of operand verdicts
(`combine`).  Nothing here imports scenic.

Verdicts are tri-state: IN (1), OUT (0), NEAR (-1, inside the near-boundary band: not judged).
"""

from __future__ import annotations

import math

import numpy as np
import shapely
import shapely.affinity
import shapely.geometry as sg
import shapely.ops

IN, OUT, NEAR = 1, 0, -1
ZTINY = 1e-9  # |dz| below this counts as "in the plane" (probes use the identical float)


class OracleError(Exception):
    pass


# ------------------------------------------------------------------------------------------
# elementary geometry
# ------------------------------------------------------------------------------------------

def rot_matrix(yaw, pitch, roll):
    """Scenic's intrinsic Z-X-Y Euler convention: R = Rz(yaw) . Rx(pitch) . Ry(roll)."""
    cz, sz = math.cos(yaw), math.sin(yaw)
    cx, sx = math.cos(pitch), math.sin(pitch)
    cy, sy = math.cos(roll), math.sin(roll)
    Rz = np.array([[cz, -sz, 0], [sz, cz, 0], [0, 0, 1.0]])
    Rx = np.array([[1.0, 0, 0], [0, cx, -sx], [0, sx, cx]])
    Ry = np.array([[cy, 0, sy], [0, 1.0, 0], [-sy, 0, cy]])
    return Rz @ Rx @ Ry


def as_pts(P):
    P = np.asarray(P, dtype=float)
    if P.ndim == 1:
        P = P[None, :]
    return P


def seg_dist(P, A, B):
    """Distances (n, m) from points P (n,3) to segments A[j]B[j] (m,3)."""
    P = as_pts(P)
    A = np.asarray(A, float)
    B = np.asarray(B, float)
    AB = B - A
    L2 = np.einsum("ij,ij->i", AB, AB)
    AP = P[:, None, :] - A[None, :, :]
    t = np.einsum("nmj,mj->nm", AP, AB) / np.where(L2 > 0, L2, 1.0)
    t = np.clip(t, 0.0, 1.0)
    C = A[None, :, :] + t[:, :, None] * AB[None, :, :]
    return np.linalg.norm(P[:, None, :] - C, axis=2)


def tri_dist(P, T):
    """Distances (n, m) from points P (n,3) to triangles T (m,3,3)."""
    P = as_pts(P)
    A, B, C = T[:, 0], T[:, 1], T[:, 2]
    N = np.cross(B - A, C - A)
    nn = np.linalg.norm(N, axis=1)
    Nu = N / nn[:, None]
    AP = P[:, None, :] - A[None]
    h = np.einsum("nmj,mj->nm", AP, Nu)  # signed height over the plane
    Q = P[:, None, :] - h[:, :, None] * Nu[None]  # projections

    def side(U, V):
        # >= 0 when Q is on the inner side of edge UV
        return np.einsum("nmj,mj->nm", np.cross((V - U)[None], Q - U[None]), Nu)

    inside = (side(A, B) >= 0) & (side(B, C) >= 0) & (side(C, A) >= 0)
    d_edges = np.minimum(np.minimum(seg_dist(P, A, B), seg_dist(P, B, C)), seg_dist(P, C, A))
    return np.where(inside, np.abs(h), d_edges)


def ray_hits(p, d, T, eps=1e-12):
    """Parameters t (any sign) where the line p + t d meets triangles T (Moller-Trumbore)."""
    p = np.asarray(p, float)
    d = np.asarray(d, float)
    A, B, C = T[:, 0], T[:, 1], T[:, 2]
    e1, e2 = B - A, C - A
    h = np.cross(d[None], e2)
    a = np.einsum("ij,ij->i", e1, h)
    ok = np.abs(a) > eps
    f = 1.0 / np.where(ok, a, 1.0)
    s = p[None] - A
    u = f * np.einsum("ij,ij->i", s, h)
    q = np.cross(s, e1)
    v = f * np.einsum("j,ij->i", d, q)
    t = f * np.einsum("ij,ij->i", e2, q)
    tol = 1e-9
    hit = ok & (u >= -tol) & (v >= -tol) & (u + v <= 1 + tol)
    return t[hit]


def poly_sd(poly, X, Y):
    """2D signed distance to a (multi)polygon: negative inside (depth to boundary)."""
    X = np.asarray(X, float)
    Y = np.asarray(Y, float)
    pts = shapely.points(X, Y)
    inside = shapely.contains_xy(poly, X, Y)
    db = shapely.distance(poly.boundary, pts)
    return np.where(inside, -db, db)


def box_sd(Q, half):
    """Signed distance of local points Q (n,k) to the axis box [-half, half]^k (exact)."""
    q = np.abs(Q) - half[None, :]
    outside = np.linalg.norm(np.maximum(q, 0.0), axis=1)
    inside = np.minimum(np.max(q, axis=1), 0.0)
    return outside + inside


def prism_sd(sd2, dz):
    """Exact signed distance of an extrusion from the 2D signed distance and |z|-h/2."""
    return np.where((sd2 <= 0) & (dz <= 0), np.maximum(sd2, dz),
                    np.hypot(np.maximum(sd2, 0.0), np.maximum(dz, 0.0)))


_ICO = None


def icosphere_arrays():
    """Vertices/faces of the unit icosphere SpheroidRegion is documented to be built from."""
    global _ICO
    if _ICO is None:
        import trimesh

        m = trimesh.creation.icosphere(radius=1)
        _ICO = (np.array(m.vertices, float), np.array(m.faces, int))
    return _ICO


_BOX = None


def box_arrays():
    global _BOX
    if _BOX is None:
        import trimesh

        m = trimesh.creation.box((1, 1, 1))
        _BOX = (np.array(m.vertices, float), np.array(m.faces, int))
    return _BOX


def mesh_volume(V, F):
    A, B, C = V[F[:, 0]], V[F[:, 1]], V[F[:, 2]]
    return float(np.einsum("ij,ij->i", A, np.cross(B, C)).sum() / 6.0)


def mesh_area(V, F):
    A, B, C = V[F[:, 0]], V[F[:, 1]], V[F[:, 2]]
    return float(np.linalg.norm(np.cross(B - A, C - A), axis=1).sum() / 2.0)


# ------------------------------------------------------------------------------------------
# shapes
# ------------------------------------------------------------------------------------------

class Shape:
    kind = "?"
    dim = 3          # dimension of the natural measure
    planar_z = None  # height of a planar region (None otherwise)
    approx = 0.0     # absolute geometric slack between the documented shape and its polygonal
    #                  / polyhedral representation inside Scenic (circle = 128-gon ...)
    convex = False
    thin = False     # measure-zero in 3D and not planar-with-area: members only "exactly"

    # -- to be provided -------------------------------------------------------------------
    def sdist(self, P):
        """Solids: signed distance (negative inside).  Others: distance >= 0."""
        raise NotImplementedError

    def aabb(self):
        raise NotImplementedError

    def measure(self):
        raise NotImplementedError

    def sample(self, rng, n):
        raise NotImplementedError

    def hull_points(self):
        lo, hi = self.aabb()
        return np.array([[x, y, z] for x in (lo[0], hi[0]) for y in (lo[1], hi[1])
                         for z in (lo[2], hi[2])])

    # -- derived ----------------------------------------------------------------------------
    @property
    def scale(self):
        lo, hi = self.aabb()
        return float(np.linalg.norm(np.asarray(hi) - np.asarray(lo)))

    def sdist_lb(self, P):
        """Cheap variant: exact where negative, a lower bound of the distance where positive."""
        return self.sdist(P)

    def dist(self, P):
        return np.maximum(self.sdist(as_pts(P)), 0.0)

    def dist_lb(self, P):
        return np.maximum(self.sdist_lb(as_pts(P)), 0.0)

    def classify(self, P, band):
        sd = self.sdist_lb(as_pts(P))
        band = band + self.approx
        if self.thin:
            tiny = 1e-10 * max(1.0, self.scale)
            return np.where(sd <= tiny, IN, np.where(sd > band, OUT, NEAR)).astype(np.int8)
        return np.where(sd < -band, IN, np.where(sd > band, OUT, NEAR)).astype(np.int8)

    def classify_footprint(self, P, band):
        """Membership ignoring height (what Scenic documents as the *footprint*)."""
        return self.classify(P, band)

    def triangles(self):
        return None


class Everywhere(Shape):
    kind = "Everywhere"

    def sdist(self, P):
        return np.full(len(as_pts(P)), -np.inf)

    def classify(self, P, band):
        return np.full(len(as_pts(P)), IN, np.int8)

    def aabb(self):
        return ((-np.inf,) * 3, (np.inf,) * 3)

    def measure(self):
        return math.inf

    @property
    def scale(self):
        return 0.0


class Nowhere(Shape):
    kind = "Nowhere"
    dim = 0

    def sdist(self, P):
        return np.full(len(as_pts(P)), np.inf)

    def classify(self, P, band):
        return np.full(len(as_pts(P)), OUT, np.int8)

    def aabb(self):
        return ((np.inf,) * 3, (-np.inf,) * 3)

    def measure(self):
        return 0.0

    @property
    def scale(self):
        return 0.0


class Posed(Shape):
    """Mixin: shape given in a local frame, world = R.q + pos."""

    def _pose(self, pos, rot):
        self.pos = np.asarray(pos, float)
        self.R = rot_matrix(*rot)

    def local(self, P):
        return (as_pts(P) - self.pos[None]) @ self.R  # == R^T (p - pos), row-wise

    def world(self, Q):
        return np.asarray(Q, float) @ self.R.T + self.pos[None]


class Box(Posed):
    kind = "Box"
    convex = True

    def __init__(self, dims, pos, rot=(0, 0, 0)):
        self.half = np.asarray(dims, float) / 2.0
        self._pose(pos, rot)

    def sdist(self, P):
        return box_sd(self.local(P), self.half)

    def corners(self):
        s = np.array([[sx, sy, sz] for sx in (-1, 1) for sy in (-1, 1) for sz in (-1, 1)], float)
        return self.world(s * self.half[None])

    def hull_points(self):
        return self.corners()

    def aabb(self):
        c = self.corners()
        return tuple(c.min(0)), tuple(c.max(0))

    def measure(self):
        return float(np.prod(2 * self.half))

    def sample(self, rng, n):
        return self.world((rng.random((n, 3)) * 2 - 1) * self.half[None])

    def triangles(self):
        V, F = box_arrays()
        W = self.world(V * (2 * self.half)[None])
        return W[F]


class Spheroid(Posed):
    """The icosphere polytope (642 vertices) scaled to the given bounding dimensions."""
    kind = "Spheroid"
    convex = True

    def __init__(self, dims, pos, rot=(0, 0, 0)):
        self.half = np.asarray(dims, float) / 2.0
        self._pose(pos, rot)
        V, F = icosphere_arrays()
        lo, hi = V.min(0), V.max(0)
        ctr, ext = (lo + hi) / 2, hi - lo
        self.Vl = (V - ctr[None]) * (2 * self.half / ext)[None]
        self.F = F
        self.V = self.world(self.Vl)
        self.T = self.V[F]
        A, B, C = self.T[:, 0], self.T[:, 1], self.T[:, 2]
        N = np.cross(B - A, C - A)
        self.N = N / np.linalg.norm(N, axis=1)[:, None]
        self.off = np.einsum("ij,ij->i", self.N, A)
        c = self.pos
        if np.any(self.N @ c - self.off > 0):  # normals must point outwards
            raise OracleError("icosphere winding")

    def sdist_lb(self, P):
        # for a convex polytope the largest plane excess is the exact depth inside and a lower
        # bound of the distance outside
        P = as_pts(P)
        return (P @ self.N.T - self.off[None]).max(axis=1)

    def sdist(self, P):
        P = as_pts(P)
        plane = P @ self.N.T - self.off[None]  # (n, m)
        mx = plane.max(axis=1)
        out = mx > 0
        res = mx.copy()
        if out.any():
            res[out] = tri_dist(P[out], self.T).min(axis=1)
        return res

    def hull_points(self):
        return self.V

    def aabb(self):
        return tuple(self.V.min(0)), tuple(self.V.max(0))

    def measure(self):
        return mesh_volume(self.V, self.F)

    def sample(self, rng, n):
        out = []
        while sum(len(o) for o in out) < n:
            Q = (rng.random((2 * n + 8, 3)) * 2 - 1) * self.half[None]
            W = self.world(Q)
            keep = (W @ self.N.T - self.off[None]).max(axis=1) <= 0
            out.append(W[keep])
        return np.concatenate(out)[:n]

    def triangles(self):
        return self.T


def _norm_poly(poly):
    if isinstance(poly, sg.Polygon):
        return sg.MultiPolygon([poly])
    return poly


def sample_polygon(poly, rng, n):
    minx, miny, maxx, maxy = poly.bounds
    out = []
    got = 0
    while got < n:
        m = max(64, 2 * (n - got))
        X = minx + (maxx - minx) * rng.random(m)
        Y = miny + (maxy - miny) * rng.random(m)
        k = shapely.contains_xy(poly, X, Y)
        out.append(np.stack([X[k], Y[k]], axis=1))
        got += int(k.sum())
    return np.concatenate(out)[:n]


class Prism(Posed):
    """Extrusion of a generator polygon, as MeshVolumeRegion builds it: the mesh of
    `extrude_polygon(poly, h)` is centred on its bounding box, optionally scaled so that the
    bounding box has `dims`, rotated and moved to `pos`."""
    kind = "MeshVol"

    def __init__(self, poly, height, pos, rot=(0, 0, 0), dims=None):
        poly = _norm_poly(poly)
        minx, miny, maxx, maxy = poly.bounds
        cx, cy = (minx + maxx) / 2, (miny + maxy) / 2
        sx = sy = sz = 1.0
        if dims is not None:
            sx, sy, sz = dims[0] / (maxx - minx), dims[1] / (maxy - miny), dims[2] / height
        self._raw = (poly, height, (cx, cy), (sx, sy, sz))
        self.poly = shapely.affinity.affine_transform(poly, [sx, 0, 0, sy, -cx * sx, -cy * sy])
        shapely.prepare(self.poly)
        self.h = height * sz
        self._pose(pos, rot)
        self.convex = bool(self.poly.convex_hull.area - self.poly.area < 1e-12 * self.poly.area)

    def sdist(self, P):
        Q = self.local(P)
        return prism_sd(poly_sd(self.poly, Q[:, 0], Q[:, 1]), np.abs(Q[:, 2]) - self.h / 2)

    def hull_points(self):
        xy = np.array(self.poly.convex_hull.exterior.coords)[:, :2]
        Q = np.concatenate([np.c_[xy, np.full(len(xy), s * self.h / 2)] for s in (-1, 1)])
        return self.world(Q)

    def aabb(self):
        pts = []
        for g in self.poly.geoms:
            pts.append(np.array(g.exterior.coords)[:, :2])
        xy = np.concatenate(pts)
        Q = np.concatenate([np.c_[xy, np.full(len(xy), s * self.h / 2)] for s in (-1, 1)])
        W = self.world(Q)
        return tuple(W.min(0)), tuple(W.max(0))

    def measure(self):
        return float(self.poly.area * self.h)

    def sample(self, rng, n):
        xy = sample_polygon(self.poly, rng, n)
        z = (rng.random(n) - 0.5) * self.h
        return self.world(np.c_[xy, z])

    def triangles(self):
        """Boundary triangles (for ray casting only): the plain arrays of
        trimesh.creation.extrude_polygon, posed by this module's own transform and verified
        against the analytic signed distance."""
        if getattr(self, "_tris", None) is None:
            import trimesh

            poly, height, (cx, cy), (sx, sy, sz) = self._raw
            if len(poly.geoms) != 1:
                raise OracleError("prism of a multipolygon")
            m = trimesh.creation.extrude_polygon(poly.geoms[0], height)
            V = np.array(m.vertices, float)
            Q = (V - np.array([cx, cy, height / 2.0])[None]) * np.array([sx, sy, sz])[None]
            T = self.world(Q)[np.array(m.faces, int)]
            mid = T.mean(axis=1)
            if np.abs(self.sdist(np.concatenate([T.reshape(-1, 3), mid]))).max() > 1e-7 * max(1.0, self.scale):
                raise OracleError("extruded mesh does not lie on the analytic prism boundary")
            self._tris = T
        return self._tris


class SurfaceOf(Shape):
    """Boundary surface of a Box or Prism (MeshSurfaceRegion of the same mesh)."""
    kind = "MeshSurf"
    dim = 2
    thin = True

    def __init__(self, solid):
        self.solid = solid

    def sdist(self, P):
        return np.abs(self.solid.sdist(P))

    def aabb(self):
        return self.solid.aabb()

    def hull_points(self):
        return self.solid.hull_points()

    def measure(self):
        s = self.solid
        if isinstance(s, Box):
            a, b, c = 2 * s.half
            return float(2 * (a * b + b * c + a * c))
        if isinstance(s, Prism):
            return float(2 * s.poly.area + s.poly.boundary.length * s.h)
        if isinstance(s, Spheroid):
            return mesh_area(s.V, s.F)
        raise OracleError("surface of " + s.kind)

    def sample(self, rng, n):
        s = self.solid
        if isinstance(s, Box):
            a, b, c = 2 * s.half
            areas = np.array([b * c, b * c, a * c, a * c, a * b, a * b])
            f = rng.choice(6, size=n, p=areas / areas.sum())
            Q = (rng.random((n, 3)) * 2 - 1) * s.half[None]
            ax = f // 2
            sign = np.where(f % 2 == 0, -1.0, 1.0)
            Q[np.arange(n), ax] = sign * s.half[ax]
            return s.world(Q)
        if isinstance(s, Prism):
            cap = s.poly.area
            wall = s.poly.boundary.length * s.h
            which = rng.random(n) < (2 * cap) / (2 * cap + wall)
            Q = np.zeros((n, 3))
            nc = int(which.sum())
            if nc:
                Q[which, :2] = sample_polygon(s.poly, rng, nc)
                Q[which, 2] = np.where(rng.random(nc) < 0.5, -1.0, 1.0) * s.h / 2
            nw = n - nc
            if nw:
                bd = s.poly.boundary
                dd = rng.random(nw) * bd.length
                if isinstance(bd, sg.MultiLineString):
                    lens = np.cumsum([g.length for g in bd.geoms])
                    pts = []
                    for d in dd:
                        i = int(np.searchsorted(lens, d, side="right"))
                        i = min(i, len(lens) - 1)
                        off = d - (lens[i - 1] if i else 0.0)
                        pts.append(bd.geoms[i].interpolate(off).coords[0][:2])
                else:
                    pts = [bd.interpolate(d).coords[0][:2] for d in dd]
                Q[~which, :2] = np.array(pts)
                Q[~which, 2] = (rng.random(nw) - 0.5) * s.h
            return s.world(Q)
        raise OracleError("surface sampling of " + s.kind)

    def triangles(self):
        return self.solid.triangles()


class Planar(Shape):
    """A region with area in the plane z = planar_z.  Subclasses give sd2 (2D signed distance)."""
    dim = 2

    def sd2(self, X, Y):
        raise NotImplementedError

    def sdist(self, P):
        P = as_pts(P)
        d2 = np.maximum(self.sd2(P[:, 0], P[:, 1]), 0.0)
        return np.hypot(d2, P[:, 2] - self.planar_z)

    def classify(self, P, band):
        P = as_pts(P)
        band = band + self.approx
        s = self.sd2(P[:, 0], P[:, 1])
        dz = np.abs(P[:, 2] - self.planar_z)
        res = np.full(len(P), NEAR, np.int8)
        res[(dz <= ZTINY) & (s < -band)] = IN
        res[(dz > band) | (s > band)] = OUT
        return res

    def classify_footprint(self, P, band):
        P = as_pts(P)
        band = band + self.approx
        s = self.sd2(P[:, 0], P[:, 1])
        return np.where(s < -band, IN, np.where(s > band, OUT, NEAR)).astype(np.int8)

    def aabb2(self):
        raise NotImplementedError

    def aabb(self):
        (x0, y0), (x1, y1) = self.aabb2()
        return (x0, y0, self.planar_z), (x1, y1, self.planar_z)

    def sample2(self, rng, n):
        raise NotImplementedError

    def sample(self, rng, n):
        xy = self.sample2(rng, n)
        return np.c_[xy, np.full(n, self.planar_z)]

    def as_polygon(self, nseg=720):
        """A fine polygonal stand-in (exact for polygonal kinds), for measures of compositions."""
        raise NotImplementedError


class Polygon(Planar):
    kind = "Polygon"

    def __init__(self, poly, z=0.0):
        self.poly = _norm_poly(poly)
        if not self.poly.is_valid or self.poly.is_empty:
            raise OracleError("generator produced an invalid polygon")
        shapely.prepare(self.poly)
        self.planar_z = float(z)
        self.convex = bool(self.poly.convex_hull.area - self.poly.area < 1e-12 * self.poly.area)

    def sd2(self, X, Y):
        return poly_sd(self.poly, X, Y)

    def aabb2(self):
        b = self.poly.bounds
        return (b[0], b[1]), (b[2], b[3])

    def hull_points(self):
        xy = np.array(self.poly.convex_hull.exterior.coords)[:, :2]
        return np.c_[xy, np.full(len(xy), self.planar_z)]

    def measure(self):
        return float(self.poly.area)

    def sample2(self, rng, n):
        return sample_polygon(self.poly, rng, n)

    def as_polygon(self, nseg=720):
        return self.poly


class Circle(Planar):
    kind = "Circle"
    convex = True

    def __init__(self, center, radius, resolution=32):
        self.c = np.asarray(center, float)
        self.r = float(radius)
        self.planar_z = float(self.c[2])
        # the library represents the disc by a polygon inscribed with 4*resolution vertices
        self.approx = self.r * (1 - math.cos(math.pi / (4 * resolution))) * 1.01

    def sd2(self, X, Y):
        return np.hypot(np.asarray(X) - self.c[0], np.asarray(Y) - self.c[1]) - self.r

    def aabb2(self):
        return (self.c[0] - self.r, self.c[1] - self.r), (self.c[0] + self.r, self.c[1] + self.r)

    def hull_points(self):
        a = np.linspace(0, 2 * math.pi, 64, endpoint=False)
        rr = self.r / math.cos(math.pi / 64)  # circumscribed polygon
        return np.c_[self.c[0] + rr * np.cos(a), self.c[1] + rr * np.sin(a),
                     np.full(64, self.planar_z)]

    def measure(self):
        return math.pi * self.r ** 2

    def sample2(self, rng, n):
        rho = self.r * np.sqrt(rng.random(n))
        t = rng.random(n) * 2 * math.pi
        return np.c_[self.c[0] + rho * np.cos(t), self.c[1] + rho * np.sin(t)]

    def as_polygon(self, nseg=720):
        a = np.linspace(0, 2 * math.pi, nseg, endpoint=False)
        return sg.MultiPolygon([sg.Polygon(np.c_[self.c[0] + self.r * np.cos(a),
                                                 self.c[1] + self.r * np.sin(a)])])


class Sector(Planar):
    """Points within `radius` of the centre whose bearing is within angle/2 of `heading`
    (heading 0 = +Y, counter-clockwise positive, as everywhere in Scenic)."""
    kind = "Sector"

    def __init__(self, center, radius, heading, angle, resolution=32):
        self.c = np.asarray(center, float)
        self.r = float(radius)
        self.heading = float(heading)
        self.angle = float(angle)
        self.full = angle >= math.tau - 0.001  # documented cut-off: treated as the whole disc
        self.ha = math.pi if self.full else angle / 2.0
        self.planar_z = float(self.c[2])
        self.approx = self.r * (1 - math.cos(math.pi / (4 * resolution))) * 1.01
        self.convex = self.full or angle <= math.pi

    def _polar(self, X, Y):
        dx = np.asarray(X, float) - self.c[0]
        dy = np.asarray(Y, float) - self.c[1]
        rho = np.hypot(dx, dy)
        # bearing relative to the heading: heading h points along (-sin h, cos h)
        va = np.arctan2(dy, dx) - (self.heading + math.pi / 2)
        va = (va + math.pi) % (2 * math.pi) - math.pi
        return dx, dy, rho, va

    def _edges(self):
        out = []
        for s in (-1, 1):
            a = self.heading + s * self.ha
            out.append((self.c[0] - self.r * math.sin(a), self.c[1] + self.r * math.cos(a)))
        return out

    def sd2(self, X, Y):
        dx, dy, rho, va = self._polar(X, Y)
        if self.full:
            return rho - self.r
        ha = self.ha
        inside = (np.abs(va) <= ha) & (rho <= self.r)
        # distance to the two straight edges (segments centre -> arc end)
        P = np.c_[np.asarray(X, float), np.asarray(Y, float), np.zeros(len(rho))]
        A = np.array([[self.c[0], self.c[1], 0.0]] * 2)
        B = np.array([[e[0], e[1], 0.0] for e in self._edges()])
        de = seg_dist(P, A, B).min(axis=1)
        darc = np.abs(rho - self.r)
        in_wedge = np.abs(va) <= ha
        d_out = np.where(in_wedge, np.minimum(de, darc), de)
        d_in = np.minimum(de, darc)
        return np.where(inside, -d_in, d_out)

    def aabb2(self):
        pts = [(self.c[0], self.c[1])] if not self.full else []
        if not self.full:
            pts += self._edges()
        for k in range(4):  # axis extremes of the arc
            a = k * math.pi / 2  # mathematical angle of the extreme point
            va = (a - (self.heading + math.pi / 2) + math.pi) % (2 * math.pi) - math.pi
            if self.full or abs(va) <= self.ha:
                pts.append((self.c[0] + self.r * math.cos(a), self.c[1] + self.r * math.sin(a)))
        arr = np.array(pts)
        return tuple(arr.min(0)), tuple(arr.max(0))

    def hull_points(self):
        p = self.as_polygon(180)
        xy = np.array(p.convex_hull.exterior.coords)[:, :2]
        ctr = np.array([self.c[0], self.c[1]])
        xy = ctr + (xy - ctr) * 1.001
        return np.c_[xy, np.full(len(xy), self.planar_z)]

    def measure(self):
        return self.ha * self.r ** 2

    def sample2(self, rng, n):
        rho = self.r * np.sqrt(rng.random(n))
        t = (rng.random(n) * 2 - 1) * self.ha + self.heading + math.pi / 2
        return np.c_[self.c[0] + rho * np.cos(t), self.c[1] + rho * np.sin(t)]

    def as_polygon(self, nseg=720):
        k = max(8, int(nseg * self.ha / math.pi))
        t = np.linspace(-self.ha, self.ha, k + 1) + self.heading + math.pi / 2
        if self.full:
            t = t[:-1]
        arc = np.c_[self.c[0] + self.r * np.cos(t), self.c[1] + self.r * np.sin(t)]
        pts = arc if self.full else np.concatenate([[[self.c[0], self.c[1]]], arc])
        return sg.MultiPolygon([sg.Polygon(pts)])


class Rect(Planar):
    """Rectangle centred at `pos`; `width` along the local x axis, `length` along the local y
    axis, the frame rotated counter-clockwise by `heading`."""
    kind = "Rectangle"
    convex = True

    def __init__(self, pos, heading, width, length):
        self.c = np.asarray(pos, float)
        self.heading = float(heading)
        self.half = np.array([width / 2.0, length / 2.0])
        self.planar_z = float(self.c[2])

    def _local(self, X, Y):
        dx = np.asarray(X, float) - self.c[0]
        dy = np.asarray(Y, float) - self.c[1]
        ch, sh = math.cos(self.heading), math.sin(self.heading)
        return np.c_[ch * dx + sh * dy, -sh * dx + ch * dy]

    def _world(self, Q):
        ch, sh = math.cos(self.heading), math.sin(self.heading)
        return np.c_[self.c[0] + ch * Q[:, 0] - sh * Q[:, 1], self.c[1] + sh * Q[:, 0] + ch * Q[:, 1]]

    def sd2(self, X, Y):
        return box_sd(self._local(X, Y), self.half)

    def corners2(self):
        s = np.array([[1, 1], [-1, 1], [-1, -1], [1, -1]], float) * self.half[None]
        return self._world(s)

    def aabb2(self):
        c = self.corners2()
        return tuple(c.min(0)), tuple(c.max(0))

    def hull_points(self):
        c = self.corners2()
        return np.c_[c, np.full(4, self.planar_z)]

    def measure(self):
        return float(4 * self.half[0] * self.half[1])

    def sample2(self, rng, n):
        return self._world((rng.random((n, 2)) * 2 - 1) * self.half[None])

    def as_polygon(self, nseg=720):
        return sg.MultiPolygon([sg.Polygon(self.corners2())])


class Footprint(Shape):
    """A polygon extruded infinitely in +-z."""
    kind = "Footprint"
    dim = 3
    # Mesh operations bound the footprint by an extruded prism; when the extrusion is not a valid
    # volume the library silently buffers + simplifies the polygon by up to 1e-3 (it warns only
    # from 1e-2 on): absolute slack of the documented "approximate bounded footprint".
    approx = 2e-3

    def __init__(self, poly):
        self.poly = _norm_poly(poly)
        shapely.prepare(self.poly)
        self.convex = bool(self.poly.convex_hull.area - self.poly.area < 1e-12 * self.poly.area)

    def sdist(self, P):
        P = as_pts(P)
        return poly_sd(self.poly, P[:, 0], P[:, 1])

    def aabb(self):
        b = self.poly.bounds
        return (b[0], b[1], -np.inf), (b[2], b[3], np.inf)

    @property
    def scale(self):
        b = self.poly.bounds
        return float(math.hypot(b[2] - b[0], b[3] - b[1]))

    def measure(self):
        return math.inf

    def sample(self, rng, n, zrange=(-1.0, 1.0)):
        xy = sample_polygon(self.poly, rng, n)
        z = zrange[0] + (zrange[1] - zrange[0]) * rng.random(n)
        return np.c_[xy, z]


class Segments(Shape):
    """Union of 3D segments (PathRegion; PolylineRegion is the special case z = 0)."""
    kind = "Path"
    dim = 1
    thin = True

    def __init__(self, polylines, kind="Path"):
        self.kind = kind
        A, B = [], []
        for pl in polylines:
            pl = [tuple(float(c) for c in (list(p) + [0.0])[:3]) for p in pl]
            for a, b in zip(pl, pl[1:]):
                if a != b:
                    A.append(a)
                    B.append(b)
        self.A = np.array(A, float)
        self.B = np.array(B, float)
        self.len = np.linalg.norm(self.B - self.A, axis=1)
        if kind == "Polyline":
            self.planar_z = None  # polylines live at z = 0 but have no area; handled as thin

    def sdist(self, P):
        return seg_dist(P, self.A, self.B).min(axis=1)

    def classify(self, P, band):
        res = Shape.classify(self, P, band)
        if self.kind == "Polyline":
            # PolylineRegion documents no tolerance (membership is an exact shapely test), so a
            # point computed in floating point on a segment cannot be judged: only the exact
            # vertices are certain members.
            P = as_pts(P)
            V = self.vertices()
            isv = (P[:, None, :] == V[None]).all(axis=2).any(axis=1)
            res[(res == IN) & ~isv] = NEAR
        return res

    def vertices(self):
        return np.unique(np.concatenate([self.A, self.B]), axis=0)

    def hull_points(self):
        return self.vertices()

    def aabb(self):
        V = self.vertices()
        return tuple(V.min(0)), tuple(V.max(0))

    def measure(self):
        return float(self.len.sum())

    def sample(self, rng, n):
        i = rng.choice(len(self.len), size=n, p=self.len / self.len.sum())
        t = rng.random(n)[:, None]
        return self.A[i] + t * (self.B[i] - self.A[i])


class Points(Shape):
    kind = "PointSet"
    dim = 0
    thin = True

    def __init__(self, pts):
        P = np.asarray(pts, float)
        if P.shape[1] == 2:
            P = np.c_[P, np.zeros(len(P))]
        self.P = P

    def sdist(self, Q):
        Q = as_pts(Q)
        return np.linalg.norm(Q[:, None, :] - self.P[None], axis=2).min(axis=1)

    def hull_points(self):
        return self.P

    def aabb(self):
        return tuple(self.P.min(0)), tuple(self.P.max(0))

    def measure(self):
        return float(len(self.P))

    def sample(self, rng, n):
        return self.P[rng.integers(0, len(self.P), size=n)]


class Grid(Points):
    """GridRegion: free cells of an occupancy grid; the *points* of the region are the free
    grid points (at z = 0); `containsPoint` is documented as "the nearest grid point is not an
    obstacle" (cell semantics, judged only in the plane z = 0)."""
    kind = "Grid"

    def __init__(self, grid, Ax, Ay, Bx, By):
        self.grid = np.asarray(grid)
        self.Ax, self.Ay, self.Bx, self.By = Ax, Ay, Bx, By
        ys, xs = np.where(self.grid == 0)
        Points.__init__(self, [(Ax * x + Bx, Ay * y + By, 0.0) for x, y in zip(xs, ys)])

    def classify_cells(self, P, band):
        """Documented containsPoint: IN/OUT by the nearest grid point, NEAR close to a cell edge."""
        P = as_pts(P)
        fx = (P[:, 0] - self.Bx) / self.Ax
        fy = (P[:, 1] - self.By) / self.Ay
        nx = np.rint(fx).astype(int)
        ny = np.rint(fy).astype(int)
        ex = np.abs(np.abs(fx - np.floor(fx)) - 0.5) * abs(self.Ax)
        ey = np.abs(np.abs(fy - np.floor(fy)) - 0.5) * abs(self.Ay)
        near = (ex < band) | (ey < band)
        sy, sx = self.grid.shape
        inr = (nx >= 0) & (nx < sx) & (ny >= 0) & (ny < sy)
        free = np.zeros(len(P), bool)
        free[inr] = self.grid[ny[inr], nx[inr]] == 0
        return np.where(near, NEAR, np.where(free, IN, OUT)).astype(np.int8)


# ------------------------------------------------------------------------------------------
# building oracle shapes from the JSON specs shared with the Scenic-side builder
# ------------------------------------------------------------------------------------------

def poly_from_spec(ps):
    """ps = list of [exterior, [holes...]] coordinate lists -> shapely MultiPolygon."""
    polys = [sg.Polygon(ext, holes) for ext, holes in ps]
    mp = sg.MultiPolygon(polys)
    if not mp.is_valid:
        raise OracleError("invalid generator polygon")
    return mp


def from_spec(s):
    k = s["kind"]
    if k == "Box":
        return Box(s["dims"], s["pos"], s["rot"])
    if k == "Spheroid":
        return Spheroid(s["dims"], s["pos"], s["rot"])
    if k == "MeshVol":
        return Prism(poly_from_spec(s["poly"]), s["height"], s["pos"], s["rot"], s.get("dims"))
    if k == "MeshSurf":
        if s["base"] == "box":
            return SurfaceOf(Box(s["dims"], s["pos"], s["rot"]))
        return SurfaceOf(Prism(poly_from_spec(s["poly"]), s["height"], s["pos"], s["rot"],
                               s.get("dims")))
    if k == "Polygon":
        return Polygon(poly_from_spec(s["poly"]), s["z"])
    if k == "Circle":
        return Circle(s["center"], s["radius"])
    if k == "Sector":
        return Sector(s["center"], s["radius"], s["heading"], s["angle"])
    if k == "Rectangle":
        return Rect(s["pos"], s["heading"], s["width"], s["length"])
    if k == "Polyline":
        return Segments(s["lines"], kind="Polyline")
    if k == "Path":
        return Segments(s["lines"], kind="Path")
    if k == "PointSet":
        return Points(s["points"])
    if k == "Grid":
        return Grid(s["grid"], s["Ax"], s["Ay"], s["Bx"], s["By"])
    if k == "Footprint":
        return Footprint(poly_from_spec(s["poly"]))
    if k == "Everywhere":
        return Everywhere()
    if k == "Nowhere":
        return Nowhere()
    raise OracleError("unknown kind " + k)


# ------------------------------------------------------------------------------------------
# Boolean combination of tri-state verdicts
# ------------------------------------------------------------------------------------------

def combine(op, a, b):
    a = np.asarray(a)
    b = np.asarray(b)
    res = np.full(a.shape, NEAR, np.int8)
    if op == "intersect":
        res[(a == IN) & (b == IN)] = IN
        res[(a == OUT) | (b == OUT)] = OUT
    elif op == "union":
        res[(a == IN) | (b == IN)] = IN
        res[(a == OUT) & (b == OUT)] = OUT
    elif op == "difference":
        res[(a == IN) & (b == OUT)] = IN
        res[(a == OUT) | (b == IN)] = OUT
    else:
        raise OracleError(op)
    return res


def nearest_along(p, d, shapes_tris, member, tol):
    """Nearest point of a (composed) solid/surface along the line p + t d.

    shapes_tris: list of triangle arrays whose union contains the boundary of the set;
    member(Q) -> bool array: Q (on some boundary) belongs to the closed set within tol.
    Returns (t, point) with minimal |t| or None."""
    p = np.asarray(p, float)
    d = np.asarray(d, float)
    ts = np.concatenate([ray_hits(p, d, T) for T in shapes_tris]) if shapes_tris else np.array([])
    if len(ts) == 0:
        return None
    Q = p[None] + ts[:, None] * d[None]
    ok = member(Q)
    if not ok.any():
        return None
    ts = ts[ok]
    i = int(np.argmin(np.abs(ts)))
    return float(ts[i]), p + ts[i] * d


# ------------------------------------------------------------------------------------------
# exact measures of compositions used by C03 / C16 (size)
# ------------------------------------------------------------------------------------------

def convex_halfspaces(shape):
    """(N, off) with N.x <= off describing a convex solid (Box / Spheroid)."""
    if isinstance(shape, Spheroid):
        return shape.N, shape.off
    if isinstance(shape, Box):
        N = np.concatenate([shape.R.T, -shape.R.T])  # rows = +-local axes in world coords
        c = shape.pos
        off = np.concatenate([shape.R.T @ c + shape.half, -(shape.R.T @ c) + shape.half])
        return N, off
    raise OracleError("not a convex solid: " + shape.kind)


def halfspace_volume(N, off):
    """Volume of {x : N x <= off} (bounded), 0.0 if empty or degenerate."""
    from scipy.optimize import linprog
    from scipy.spatial import ConvexHull, HalfspaceIntersection, QhullError

    nn = np.linalg.norm(N, axis=1)
    # Chebyshev centre: maximise r s.t. N x + |N| r <= off
    c = np.zeros(4)
    c[3] = -1.0
    A = np.c_[N, nn]
    res = linprog(c, A_ub=A, b_ub=off, bounds=[(None, None)] * 3 + [(0, None)], method="highs")
    if res.status != 0 or res.x[3] <= 1e-9:
        return 0.0
    try:
        hs = HalfspaceIntersection(np.c_[N, -off], res.x[:3])
        return float(ConvexHull(hs.intersections).volume)
    except QhullError:
        return 0.0


def convex_section_polygon(shape, z):
    """Cross-section of a convex solid with the plane of height z, as a shapely polygon."""
    T = shape.triangles()
    pts = []
    for tri in T:
        for a, b in ((tri[0], tri[1]), (tri[1], tri[2]), (tri[2], tri[0])):
            da, db = a[2] - z, b[2] - z
            if da == 0:
                pts.append(a[:2])
            if (da < 0 < db) or (db < 0 < da):
                t = da / (da - db)
                pts.append((a + t * (b - a))[:2])
    if len(pts) < 3:
        return sg.Polygon()
    hull = sg.MultiPoint(pts).convex_hull
    return hull if isinstance(hull, sg.Polygon) else sg.Polygon()


def clip_segments_convex(A, B, N, off):
    """Lengths of segments A[i]B[i] inside {N x <= off} (Cyrus-Beck), and the [t0,t1] ranges."""
    out = []
    for a, b in zip(A, B):
        d = b - a
        t0, t1 = 0.0, 1.0
        na = N @ a - off
        nd = N @ d
        ok = True
        for va, vd in zip(na, nd):
            if abs(vd) < 1e-15:
                if va > 0:
                    ok = False
                    break
                continue
            t = -va / vd
            if vd > 0:
                t1 = min(t1, t)
            else:
                t0 = max(t0, t)
            if t0 >= t1:
                ok = False
                break
        out.append((t0, t1) if ok else (0.0, 0.0))
    return out


# ------------------------------------------------------------------------------------------
# start-up self-check on hand-computed examples
# ------------------------------------------------------------------------------------------

_CHECKED = False


def selftest():
    global _CHECKED
    if _CHECKED:
        return True

    def req(cond, what):
        if not cond:
            raise OracleError("regoracle self-check failed: " + what)

    def close(a, b, tol=1e-9):
        return abs(a - b) <= tol * max(1.0, abs(b))

    # rotations: yaw 90deg maps +x to +y; pitch 90deg maps +y to +z; roll 90deg maps +z to +x
    req(np.allclose(rot_matrix(math.pi / 2, 0, 0) @ [1, 0, 0], [0, 1, 0]), "yaw")
    req(np.allclose(rot_matrix(0, math.pi / 2, 0) @ [0, 1, 0], [0, 0, 1]), "pitch")
    req(np.allclose(rot_matrix(0, 0, math.pi / 2) @ [0, 0, 1], [1, 0, 0]), "roll")
    from scipy.spatial.transform import Rotation

    for ang in ((0.3, -0.7, 1.1), (2.0, 0.4, -2.5)):
        req(np.allclose(rot_matrix(*ang), Rotation.from_euler("ZXY", ang).as_matrix()), "ZXY")
    # box 2x4x6 at (1,2,3), yaw 90deg: local x axis -> world y
    b = Box((2, 4, 6), (1, 2, 3), (math.pi / 2, 0, 0))
    req(close(b.sdist([[1, 2, 3]])[0], -1.0), "box centre depth")
    req(close(b.sdist([[1, 2 + 1 + 0.5, 3]])[0], 0.5), "box outside along rotated x")
    req(close(b.sdist([[1 - 2 - 3, 2, 3 + 3 + 4]])[0], 5.0), "box edge distance 3-4-5")
    req(close(b.measure(), 48.0), "box volume")
    lo, hi = b.aabb()
    req(np.allclose(lo, (-1, 1, 0)) and np.allclose(hi, (3, 3, 6)), "box aabb")
    req(list(b.classify([[1, 2, 3], [9, 9, 9], [1, 2, 5.9995]], 1e-3)) == [IN, OUT, NEAR],
        "box classify")
    t = np.sort(ray_hits([1, 2, -10], [0, 0, 1], b.triangles()))
    req(len(t) >= 2 and close(t[0], 10.0) and close(t[-1], 16.0), "box ray hits")
    # spheroid: polytope inscribed in the ellipsoid, touching it at the axis points
    s = Spheroid((2, 2, 4), (0, 0, 10), (0, 0, 0))
    req(close(s.sdist([[0, 0, 12 + 1.5]])[0], 1.5, 1e-9), "spheroid pole distance")
    req(s.sdist([[0, 0, 10]])[0] < -0.99, "spheroid centre depth")
    req(0.985 * 4 / 3 * math.pi * 2 < s.measure() < 4 / 3 * math.pi * 2, "spheroid volume")
    q = s.sample(np.random.default_rng(0), 200)
    req(np.all(((q - [0, 0, 10]) ** 2 / np.array([1, 1, 4.0])).sum(1) <= 1 + 1e-9),
        "spheroid samples in ellipsoid")
    req(close(halfspace_volume(*convex_halfspaces(s)), s.measure(), 1e-9), "halfspace volume")
    # L-shaped prism, area 3, height 2
    L = sg.Polygon([(0, 0), (2, 0), (2, 1), (1, 1), (1, 2), (0, 2)])
    p = Prism(L, 2.0, (10, 10, 10))
    req(close(p.measure(), 6.0), "prism volume")
    # centred on the bounding box (1,1): the notch corner (1,1) is at the local origin
    req(close(p.sdist([[10.5, 10.5, 10]])[0], 0.5), "prism notch outside")
    req(close(p.sdist([[9.5, 9.5, 10]])[0], -0.5), "prism inside depth")
    req(close(p.sdist([[9.5, 9.5, 10 + 1 + 2]])[0], 2.0), "prism above")
    req(close(p.sdist([[12, 9.5, 13]])[0], math.hypot(1, 2)), "prism edge distance")
    sf = SurfaceOf(p)
    req(close(sf.measure(), 2 * 3 + 8 * 2), "prism surface area")
    req(close(sf.sdist([[9.5, 9.5, 10]])[0], 0.5), "surface distance from inside")
    w = sf.sample(np.random.default_rng(1), 300)
    req(np.all(np.abs(p.sdist(w)) < 1e-9), "surface samples on the surface")
    tt = np.sort(ray_hits([9.5, 9.5, 0], [0, 0, 1], p.triangles()))
    req(len(tt) >= 2 and close(tt[0], 9.0) and close(tt[-1], 11.0), "prism ray hits")
    req(close(mesh_area(p.triangles().reshape(-1, 3), np.arange(3 * len(p.triangles())).reshape(-1, 3)),
              22.0), "prism triangle area")
    p2 = Prism(L, 2.0, (0, 0, 0), (0, 0, 0), dims=(4, 2, 1))
    req(close(p2.measure(), 3 * (2 * 1) * (2 * 0.5)), "scaled prism volume")
    req(close(p2.sdist([[-1.0, -0.5, 0]])[0], -0.5), "scaled prism depth")
    # planar kinds
    sq = Polygon(sg.Polygon([(0, 0), (4, 0), (4, 4), (0, 4)], [[(1, 1), (2, 1), (2, 2), (1, 2)]]), 5.0)
    req(close(sq.measure(), 15.0), "polygon area")
    req(list(sq.classify([[3, 3, 5.0], [1.5, 1.5, 5.0], [3, 3, 0.0], [3, 3, 5.0 + 1e-5]], 1e-3))
        == [IN, OUT, OUT, NEAR], "polygon classify with height")
    req(list(sq.classify_footprint([[3, 3, 0.0], [1.5, 1.5, 5.0]], 1e-3)) == [IN, OUT], "footprint")
    req(close(sq.dist([[7, 8, 5 + 12]])[0], 13.0), "polygon 3D distance 3-4-12")
    req(close(sq.dist([[1.5, 1.5, 5]])[0], 0.5), "polygon hole distance")
    c = Circle((1, 1, 2), 2.0)
    req(close(c.dist([[1, 6, 2]])[0], 3.0) and close(c.dist([[1, 1, 5]])[0], 3.0), "circle dist")
    req(close(c.dist([[4 + 1, 1, 2 + 3]])[0], math.hypot(2, 3)), "circle oblique dist")
    # sector radius 2, heading 0 (= +Y), angle 90deg: bearings within 45deg of +Y
    se = Sector((0, 0, 1), 2.0, 0.0, math.pi / 2)
    req(list(se.classify([[0, 1, 1], [1.5, 0.2, 1], [0, -1, 1], [0, 1, 0]], 1e-3))
        == [IN, OUT, OUT, OUT], "sector membership")
    req(close(se.sd2([0.0], [3.0])[0], 1.0), "sector beyond arc")
    req(close(se.sd2([0.0], [-1.0])[0], 1.0), "sector behind centre")
    req(close(se.sd2([0.0], [1.0])[0], -math.sin(math.pi / 4)), "sector depth to edges")
    req(close(se.measure(), math.pi / 4 * 4), "sector area")
    (x0, y0), (x1, y1) = se.aabb2()
    req(close(x0, -math.sqrt(2)) and close(x1, math.sqrt(2)) and close(y0, 0) and close(y1, 2),
        "sector aabb")
    se2 = Sector((0, 0, 0), 1.0, math.pi / 2, math.pi)  # heading +90deg = -X: left half disc
    req(list(se2.classify([[-0.5, 0.3, 0], [0.5, 0, 0]], 1e-3)) == [IN, OUT], "sector heading")
    req(close(se2.as_polygon().area, se2.measure(), 1e-4), "sector polygon area")
    r = Rect((1, 1, 3), math.pi / 2, 2.0, 6.0)  # length axis (local y) points along -X
    req(list(r.classify([[3.5, 1, 3], [1, 3.5, 3], [1, 1.5, 3]], 1e-3)) == [IN, OUT, IN], "rect")
    req(close(r.dist([[1 + 3 + 3, 1, 3 + 4]])[0], 5.0), "rect distance")
    # segments / points / grid
    sgm = Segments([[(0, 0, 0), (4, 0, 0), (4, 3, 0)]])
    req(close(sgm.measure(), 7.0) and close(sgm.dist([[2, 0, 5]])[0], 5.0), "segments")
    req(close(sgm.dist([[7, 7, 0]])[0], 5.0), "segment end distance")
    req(list(sgm.classify([[2, 0, 0], [2, 1e-5, 0], [2, 1, 0]], 1e-3)) == [IN, NEAR, OUT], "thin")
    ps = Points([(0, 0, 0), (1, 2, 2)])
    req(close(ps.dist([[1, 2, 5]])[0], 3.0), "points")
    g = Grid([[0, 1], [0, 0]], 2.0, 3.0, 10.0, 20.0)
    req(len(g.P) == 3 and close(g.P[:, 0].max(), 12.0) and close(g.P[:, 1].max(), 23.0), "grid pts")
    req(list(g.classify_cells([[12.2, 20.3, 0], [10.1, 20.1, 0], [30, 30, 0]], 1e-3))
        == [OUT, IN, OUT], "grid cells")
    f = Footprint(L)
    req(list(f.classify([[0.5, 0.5, 99.0], [1.5, 1.5, 0]], 1e-3)) == [IN, OUT], "footprint solid")
    # combination
    req(list(combine("difference", [IN, IN, NEAR, OUT], [OUT, IN, OUT, OUT])) == [IN, OUT, NEAR, OUT],
        "combine difference")
    req(list(combine("union", [OUT, NEAR, IN], [OUT, OUT, NEAR])) == [OUT, NEAR, IN], "combine union")
    # convex section and clipping
    bb = Box((2, 2, 2), (0, 0, 0), (0, 0, 0))
    req(close(convex_section_polygon(bb, 0.5).area, 4.0), "box section")
    N, off = convex_halfspaces(bb)
    req(np.allclose(clip_segments_convex(np.array([[-3.0, 0, 0]]), np.array([[3.0, 0, 0]]), N, off)[0],
                    (1 / 3, 2 / 3)), "segment clipping")
    b2 = Box((2, 2, 2), (1, 0, 0), (0, 0, 0))
    N2, off2 = convex_halfspaces(b2)
    req(close(halfspace_volume(np.concatenate([N, N2]), np.concatenate([off, off2])), 4.0, 1e-9),
        "box-box intersection volume")
    hit = nearest_along([0, 0, 5], [0, 0, 1], [bb.triangles()],
                        lambda Q: bb.sdist(Q) <= 1e-9, 1e-9)
    req(hit is not None and close(hit[0], -4.0), "nearest along")
    _CHECKED = True
    return True
