"""Exact enumeration of the outcomes of a randomised computation.

`Enumerator.run(f)` executes `f` once per leaf of its tree of random choices and returns
`{outcome: Fraction}`.  Random choices are made through `Enumerator.choose(probs)`;
`patched_rng(enum)` re-routes the `random` module (and rejects continuous / numpy draws) so
that unmodified code under test draws through the enumerator.
"""

from __future__ import annotations

import contextlib
import itertools
import random as _random
from fractions import Fraction


class OutOfFragment(Exception):
    """The computation drew a continuous random value: not enumerable."""


class TooManyLeaves(Exception):
    pass


def frac(x):
    if isinstance(x, Fraction):
        return x
    if isinstance(x, bool):
        return Fraction(int(x))
    if isinstance(x, int):
        return Fraction(x)
    if isinstance(x, float):
        return Fraction(x)  # exact binary value
    return Fraction(x)


class U:
    """A uniform draw on [0,1) observed only through comparisons (each a choice point)."""

    __slots__ = ("en", "lo", "hi")

    def __init__(self, en):
        self.en = en
        self.lo = Fraction(0)
        self.hi = Fraction(1)

    def _below(self, p):  # is u < p  (== u <= p almost surely)
        p = frac(p)
        if p >= self.hi:
            return True
        if p <= self.lo:
            return False
        w = self.hi - self.lo
        i = self.en.choose([(p - self.lo) / w, (self.hi - p) / w])
        if i == 0:
            self.hi = p
            return True
        self.lo = p
        return False

    def __lt__(self, p):
        return self._below(p)

    def __le__(self, p):
        return self._below(p)

    def __gt__(self, p):
        return not self._below(p)

    def __ge__(self, p):
        return not self._below(p)

    def _bad(self, *a, **k):
        raise OutOfFragment("arithmetic on random.random()")

    __float__ = __add__ = __radd__ = __mul__ = __rmul__ = __sub__ = __rsub__ = _bad
    __truediv__ = __rtruediv__ = __neg__ = __int__ = __index__ = __bool__ = _bad
    __eq__ = __ne__ = _bad
    __hash__ = None


class Enumerator:
    def __init__(self, max_leaves=20000):
        self.max_leaves = max_leaves
        self.leaves = 0
        self.choice_points = 0

    # -- called from inside f ------------------------------------------------------------
    def choose(self, probs):
        """Pick an index with the given exact probabilities (zero-probability ones skipped)."""
        alts = [(i, frac(p)) for i, p in enumerate(probs) if p > 0]
        if not alts:
            raise ValueError("choice with no positive probability")
        tot = sum(p for _, p in alts)
        if tot != 1:
            alts = [(i, p / tot) for i, p in alts]
        if len(alts) == 1:
            return alts[0][0]
        self.choice_points += 1
        if self._pos < len(self._prefix):
            k = self._prefix[self._pos]
        else:
            k = 0
            for j in range(len(alts) - 1, 0, -1):
                self._stack.append(self._taken + [j])
        self._taken.append(k)
        self._pos += 1
        i, p = alts[k]
        self._prob *= p
        return i

    # -- driver ---------------------------------------------------------------------------
    def run(self, f):
        """f() -> hashable outcome.  Returns {outcome: probability}."""
        table = {}
        self._stack = [[]]
        self.leaves = 0
        while self._stack:
            self._prefix = self._stack.pop()
            self._taken = []
            self._pos = 0
            self._prob = Fraction(1)
            out = f()
            self.leaves += 1
            if self.leaves > self.max_leaves:
                raise TooManyLeaves()
            table[out] = table.get(out, Fraction(0)) + self._prob
        total = sum(table.values())
        if total != 1:
            raise AssertionError(f"enumeration probabilities sum to {total}, not 1")
        return table


def _probs_from_weights(n, weights, cum_weights):
    if weights is not None and cum_weights is not None:
        raise TypeError("both weights and cum_weights")
    if cum_weights is not None:
        cw = [frac(w) for w in cum_weights]
        ws = [cw[0]] + [b - a for a, b in zip(cw, cw[1:])]
    elif weights is not None:
        ws = [frac(w) for w in weights]
    else:
        ws = [Fraction(1)] * n
    if len(ws) != n:
        raise ValueError("The number of weights does not match the population")
    tot = sum(ws)
    if tot <= 0:
        raise ValueError("Total of weights must be greater than zero")
    return [w / tot for w in ws]


@contextlib.contextmanager
def patched_rng(en: Enumerator):
    """Route the `random` module through `en`; continuous and numpy draws are refused."""
    import numpy

    def r_random():
        return U(en)

    def r_randint(a, b):
        a, b = int(a), int(b)
        if b < a:
            raise ValueError("empty range for randint")
        return a + en.choose([Fraction(1, b - a + 1)] * (b - a + 1))

    def r_randrange(start, stop=None, step=1):
        rng = range(start) if stop is None else range(start, stop, step)
        if len(rng) == 0:
            raise ValueError("empty range for randrange()")
        return rng[en.choose([Fraction(1, len(rng))] * len(rng))]

    def r_choice(seq):
        if not len(seq):
            raise IndexError("Cannot choose from an empty sequence")
        return seq[en.choose([Fraction(1, len(seq))] * len(seq))]

    def r_choices(population, weights=None, *, cum_weights=None, k=1):
        population = list(population)
        probs = _probs_from_weights(len(population), weights, cum_weights)
        return [population[en.choose(probs)] for _ in range(k)]

    def r_shuffle(x):
        for i in reversed(range(1, len(x))):
            j = en.choose([Fraction(1, i + 1)] * (i + 1))
            x[i], x[j] = x[j], x[i]

    def refuse(name):
        def f(*a, **k):
            raise OutOfFragment(name)

        return f

    saved = {}
    patches = {
        "random": r_random, "randint": r_randint, "randrange": r_randrange,
        "choice": r_choice, "choices": r_choices, "shuffle": r_shuffle,
    }
    for n in ("uniform", "gauss", "triangular", "normalvariate", "betavariate", "expovariate",
              "sample", "getrandbits", "randbytes", "vonmisesvariate", "gammavariate",
              "lognormvariate", "paretovariate", "weibullvariate"):
        patches[n] = refuse("random." + n)
    for k, v in patches.items():
        saved[k] = getattr(_random, k)
        setattr(_random, k, v)
    np_saved = {}
    for n in ("random", "random_sample", "rand", "randn", "uniform", "normal", "randint",
              "choice", "shuffle", "permutation", "sample", "ranf"):
        if hasattr(numpy.random, n):
            np_saved[n] = getattr(numpy.random, n)
            setattr(numpy.random, n, refuse("numpy.random." + n))
    try:
        yield en
    finally:
        for k, v in saved.items():
            setattr(_random, k, v)
        for k, v in np_saved.items():
            setattr(numpy.random, k, v)


def selftest():
    en = Enumerator()

    def f():
        a = en.choose([Fraction(1, 2), Fraction(1, 4), Fraction(1, 4)])
        b = en.choose([Fraction(1, 3), Fraction(2, 3)]) if a != 1 else 7
        return (a, b)

    t = en.run(f)
    assert t == {(0, 0): Fraction(1, 6), (0, 1): Fraction(1, 3), (1, 7): Fraction(1, 4),
                 (2, 0): Fraction(1, 12), (2, 1): Fraction(1, 6)}, t
    en = Enumerator()
    with patched_rng(en):
        def g():
            u = _random.random()
            x = _random.randint(1, 3)
            return (u <= 0.25, u < 0.5, x, _random.choices("ab", cum_weights=[1, 4])[0])

        t = en.run(g)
    assert sum(p for k, p in t.items() if k[0]) == Fraction(1, 4)
    assert sum(p for k, p in t.items() if k[1]) == Fraction(1, 2)
    assert not any(k[0] and not k[1] for k in t)
    assert sum(p for k, p in t.items() if k[3] == "a") == Fraction(1, 4)
    assert sum(p for k, p in t.items() if k[2] == 2) == Fraction(1, 3)
    return True
