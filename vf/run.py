"""Runner: `python -m vf.run <ID> [--tier quick|thorough] [--replay FILE]`.

Exit 0 = property held on everything explored (KNOWN-FINDING lines allowed);
exit 1 = unlisted violation(s), each printed as `VIOLATION property=<id> replay=<path>`;
exit 2 = harness error.
"""

from __future__ import annotations

import argparse
import fcntl
import fnmatch
import importlib
import json
import multiprocessing as mp
import os
import subprocess
import sys
import tempfile
import time
import traceback

from vf import core

VERIF = core.VERIF


def repo_root():
    return os.environ.get("VERIF_REPO", "/repo")


def setup_paths():
    src = os.path.join(repo_root(), "src")
    if src not in sys.path[:1]:
        sys.path.insert(0, src)


def regen_parser():
    """Regenerate src/scenic/syntax/parser.py from scenic.gram if it differs."""
    syn = os.path.join(repo_root(), "src", "scenic", "syntax")
    gram = os.path.join(syn, "scenic.gram")
    target = os.path.join(syn, "parser.py")
    lock = os.path.join(tempfile.gettempdir(), "vf-parser.lock")
    with open(lock, "w") as lf:
        fcntl.flock(lf, fcntl.LOCK_EX)
        for fn in os.listdir(syn):  # leftovers of killed runs
            if fn.startswith("vf-parser-") and fn.endswith(".tmp"):
                p = os.path.join(syn, fn)
                if time.time() - os.path.getmtime(p) > 600:
                    os.unlink(p)
        fd, tmp = tempfile.mkstemp(prefix="vf-parser-", suffix=".tmp", dir=syn)
        os.close(fd)
        try:
            r = subprocess.run([sys.executable, "-m", "pegen", gram, "-o", tmp],
                               capture_output=True, text=True, cwd=repo_root())
            if r.returncode != 0:
                raise core.HarnessError("pegen failed: " + r.stderr[-2000:])
            new = open(tmp, "rb").read()
            old = open(target, "rb").read() if os.path.exists(target) else None
            if new != old:
                os.replace(tmp, target)
                tmp = None
        finally:
            if tmp and os.path.exists(tmp):
                os.unlink(tmp)


def load_findings(prop):
    path = os.path.join(VERIF, "known_findings.json")
    if not os.path.exists(path):
        return []
    with open(path) as f:
        data = json.load(f)
    return [e for e in data.get("findings", []) if e.get("property") == prop]


def _worker(args):
    modname, shard, tier = args
    setup_paths()
    try:
        mod = importlib.import_module(modname)
        return core.with_big_stack(lambda: mod.run_shard(shard, tier))
    except core.HarnessError as e:
        return {"harness_error": f"{e}", "shard": shard.get("id")}
    except BaseException as e:  # noqa
        return {"harness_error": "".join(traceback.format_exception(e))[-4000:],
                "shard": shard.get("id")}


def main(argv=None):
    ap = argparse.ArgumentParser()
    ap.add_argument("prop")
    ap.add_argument("--tier", default=os.environ.get("VERIF_TIER", "quick"),
                    choices=["quick", "thorough"])
    ap.add_argument("--replay")
    ap.add_argument("--jobs", type=int, default=int(os.environ.get("VERIF_JOBS", "16")))
    args = ap.parse_args(argv)

    if os.environ.get("PYTHONHASHSEED") != "0":
        env = dict(os.environ, PYTHONHASHSEED="0")
        os.execve(sys.executable, [sys.executable, "-m", "vf.run"] + (argv or sys.argv[1:]), env)

    prop = args.prop.upper()
    try:
        seed = int(os.environ.get("VERIF_SEED", "1"))
    except ValueError:
        seed = 1
    t0 = time.time()
    setup_paths()
    modname = f"vf.props.{prop.lower()}"
    try:
        mod = importlib.import_module(modname)
        if getattr(mod, "NEEDS_PARSER", True):
            regen_parser()
    except Exception:
        traceback.print_exc()
        print(f"HARNESS-ERROR property={prop} import/setup failed")
        return 2

    findings = load_findings(prop)
    open_f = [e for e in findings if e.get("status") == "open"]
    known_sigs = [e["signature"] for e in open_f]

    if args.replay:
        return replay(mod, prop, args.replay, open_f)

    # ---- regression tier: committed replay files first -------------------------------
    reg_fail = []
    reg_dir = os.path.join(VERIF, "regressions", prop)
    reg_n = 0
    if os.path.isdir(reg_dir):
        for fn in sorted(os.listdir(reg_dir)):
            if not fn.endswith(".json"):
                continue
            with open(os.path.join(reg_dir, fn)) as f:
                doc = json.load(f)
            reg_n += 1
            try:
                out = mod.replay(doc["case"])
            except Exception:
                traceback.print_exc()
                print(f"HARNESS-ERROR property={prop} regression {fn} crashed")
                return 2
            for sig, detail in out.failures:
                reg_fail.append((sig, detail, doc["case"], fn))

    # ---- main search ---------------------------------------------------------------
    shards = mod.plan(args.tier, seed, args.jobs)
    for i, s in enumerate(shards):
        s.setdefault("id", i)
        s["known_sigs"] = known_sigs
    ctx = mp.get_context("spawn")
    results = []
    if args.jobs <= 1 or len(shards) == 1:
        results = [_worker((modname, s, args.tier)) for s in shards]
    else:
        with ctx.Pool(min(args.jobs, len(shards))) as pool:
            results = pool.map(_worker, [(modname, s, args.tier) for s in shards], chunksize=1)

    herr = [r for r in results if "harness_error" in r]
    if herr:
        for r in herr:
            print(f"HARNESS-ERROR property={prop} shard={r.get('shard')}\n{r['harness_error']}")
        return 2

    # ---- merge -------------------------------------------------------------------------
    evaluations = sum(r["evaluations"] for r in results)
    nontriv = set()
    classes = {}
    failures = {}
    samples = []
    inconclusive = 0
    extra = {}
    for r in results:
        nontriv.update(r["nontrivial"])
        for k, v in r["classes"].items():
            classes[k] = classes.get(k, 0) + v
        for sig, ent in r["failures"].items():
            e = failures.setdefault(sig, {"count": 0, "examples": []})
            e["count"] += ent["count"]
            e["examples"].extend(ent["examples"])
        for s in r["samples"]:
            if len(samples) < 5:
                samples.append(s)
        inconclusive += r["inconclusive"]
        for k, v in r.get("extra", {}).items():
            if isinstance(v, (int, float)):
                extra[k] = extra.get(k, 0) + v
            else:
                extra.setdefault(k, v)
    for sig, detail, case, fn in reg_fail:
        e = failures.setdefault(sig, {"count": 0, "examples": []})
        e["count"] += 1
        e["examples"].insert(0, {"case": case, "detail": detail, "shrunk": True,
                                 "regression": fn})

    # ---- attribute to known findings ----------------------------------------------------
    suffix = os.environ.get("VERIF_OUT_SUFFIX", "")
    outdir = os.path.join(VERIF, "out", prop + suffix, args.tier)
    os.makedirs(outdir, exist_ok=True)
    for fn in os.listdir(outdir):
        if fn.startswith("replay-"):
            os.unlink(os.path.join(outdir, fn))
    known_hits = {}
    violations = []
    for sig, ent in sorted(failures.items()):
        hit = None
        for e in open_f:
            if fnmatch.fnmatchcase(sig, e["signature"]):
                hit = e
                break
        if hit is not None:
            known_hits.setdefault(hit["id"], [hit, 0])
            known_hits[hit["id"]][1] += ent["count"]
            continue
        ex = sorted(ent["examples"], key=lambda x: (not x.get("shrunk"),
                                                    len(json.dumps(x["case"]))))[0]
        path = os.path.join(outdir, f"replay-{core.digest(sig)}.json")
        core.write_json(path, {
            "property": prop, "signature": sig, "case": ex["case"], "detail": ex["detail"],
            "count": ent["count"], "seed": seed, "tier": args.tier, "shrunk": ex.get("shrunk"),
            "how_to_run": f"./check {prop} --replay {os.path.relpath(path, VERIF)}",
        })
        violations.append((sig, path, ent["count"]))

    stale = [e["id"] for e in open_f if e["id"] not in known_hits]
    wall = time.time() - t0

    floor = getattr(mod, "FLOOR", 0.0)
    frac = (len(nontriv) / evaluations) if evaluations else 0.0
    ev = {
        "property_id": prop,
        "tier": args.tier,
        "seed": seed,
        "level": "exploration",
        "coverage": {
            "evaluations": evaluations,
            "distinct_nontrivial": len(nontriv),
            "rule": getattr(mod, "RULE", ""),
            "samples": samples[:5],
            "classes": dict(sorted(classes.items(), key=lambda kv: -kv[1])),
            "nontrivial_fraction": round(frac, 4),
            "inconclusive": inconclusive,
            "excluded_known": {k: v[1] for k, v in known_hits.items()},
            "stale_known": stale,
            "regressions_replayed": reg_n,
            "exhaustive": bool(shards) and extra.get("exhaustive_shards", 0) == len(shards),
            "extra": extra,
            "violating_signatures": [v[0] for v in violations],
        },
        "assumptions": getattr(mod, "ASSUMPTIONS", []),
        "wall_s": round(wall, 2),
        "violations": len(violations),
    }
    if suffix:  # self-test / seeded-mutant runs never touch the real evidence
        core.write_json(os.path.join(outdir, "evidence.json"), ev)
    else:
        core.write_json(os.path.join(VERIF, "evidence", f"{prop}.json"), ev)

    print(f"[{prop}] tier={args.tier} seed={seed} evaluations={evaluations} "
          f"nontrivial={len(nontriv)} ({frac:.0%}) inconclusive={inconclusive} "
          f"wall={wall:.1f}s")
    top = sorted(classes.items(), key=lambda kv: -kv[1])[:14]
    print(f"[{prop}] classes: " + ", ".join(f"{k}={v}" for k, v in top))
    for fid, (e, n) in sorted(known_hits.items()):
        print(f"KNOWN-FINDING: property={prop} {e['title']} [{fid}; {n} cases]")
    for sig, path, n in violations:
        print(f"[{prop}] violating signature: {sig} ({n} cases)")
        print(f"VIOLATION property={prop} replay={path}")
    if violations:
        return 1
    if hasattr(mod, "post_merge"):
        msg = mod.post_merge(classes, evaluations, args.tier)
        if msg:
            print(f"HARNESS-ERROR property={prop} {msg}")
            return 2
    if evaluations == 0 or len(nontriv) < 2 or frac < floor:
        print(f"HARNESS-ERROR property={prop} vacuous run: nontrivial fraction {frac:.2f} "
              f"< floor {floor} (evaluations={evaluations})")
        return 2
    return 0


def replay(mod, prop, path, open_f):
    with open(path) as f:
        doc = json.load(f)
    out = mod.replay(doc["case"])
    if not out.failures:
        print(f"[{prop}] replay {path}: property holds on this case")
        return 0
    rc = 0
    for sig, detail in out.failures:
        hit = next((e for e in open_f if fnmatch.fnmatchcase(sig, e["signature"])), None)
        print(f"[{prop}] replay failure: {sig}\n{json.dumps(detail, indent=1, default=repr)[:3000]}")
        if hit:
            print(f"KNOWN-FINDING: property={prop} {hit['title']} [{hit['id']}]")
        else:
            print(f"VIOLATION property={prop} replay={path}")
            rc = 1
    return rc


if __name__ == "__main__":
    sys.exit(main())
