"""Harness-owned truth tables and event log for generated *dynamic* Scenic programs, plus a
do-nothing simulator that reports how a run ended.

A generated program starts with

    from vf.tablesim import T, LOG

(`/verif` is on `sys.path` through PYTHONPATH, so the program and the harness share this very
module object).  `T("a")` returns the harness-chosen truth value of atom `a` *at the current
simulation step* and records that the cell (`a`, step) was read; `LOG("tag")` appends
(`step`, `tag`) to the event log.  Nothing here depends on how Scenic evaluates requirements:
the step is `Simulation.currentTime` of the simulation that is running (documented as
`simulation().currentTime`), or step 0 with phase "gen" while no simulation is running (scene
generation evaluates requirements on the initial scene).

One compiled scenario + one generated scene can therefore be re-simulated under thousands of
tables: `run(scene, table, maxSteps)`.
"""

from __future__ import annotations


class TableError(Exception):
    """The program read a cell the harness did not provide (harness defect, never a verdict)."""


class _State:
    __slots__ = ("table", "reads", "log", "armed", "default")

    def __init__(self):
        self.table = {}
        self.reads = []  # (phase, name, step) in evaluation order; phase "sim" or "gen"
        self.log = []  # (step, tag)
        self.armed = False
        self.default = None


STATE = _State()


def _step_and_phase():
    import scenic.syntax.veneer as veneer

    sim = veneer.currentSimulation
    if sim is None:
        return 0, "gen"
    return sim.currentTime, "sim"


def T(name):
    """Truth value of atom `name` at the current step (harness-owned table)."""
    step, phase = _step_and_phase()
    STATE.reads.append((phase, name, step))
    row = STATE.table.get(name)
    if row is None or step >= len(row):
        if STATE.default is not None:
            return STATE.default
        raise TableError(f"cell ({name!r}, {step}) is outside the table ({phase})")
    return bool(row[step])


def V(name):
    """Like T but returns the raw cell (any JSON value), for non-Boolean cells."""
    step, phase = _step_and_phase()
    STATE.reads.append((phase, name, step))
    row = STATE.table.get(name)
    if row is None or step >= len(row):
        raise TableError(f"cell ({name!r}, {step}) is outside the table ({phase})")
    return row[step]


def LOG(tag):
    step, _ = _step_and_phase()
    STATE.log.append((step, tag))
    return True


def NOW():
    return _step_and_phase()[0]


def set_table(table, default=None):
    """Install a table {name: [v0, v1, ...]} and clear the read/event logs."""
    STATE.table = table
    STATE.reads = []
    STATE.log = []
    STATE.default = default


def reset_logs():
    STATE.reads = []
    STATE.log = []


# ----------------------------------------------------------------------------------------------
# Simulator
# ----------------------------------------------------------------------------------------------

_SIM = None


def _classes():
    """Build the simulator classes lazily (scenic must be imported from VERIF_REPO first)."""
    global _SIM
    if _SIM is not None:
        return _SIM
    from scenic.core.simulators import DummySimulation, DummySimulator

    class TableSimulation(DummySimulation):
        pass

    class TableSimulator(DummySimulator):
        """DummySimulator that remembers why and when the last simulation was rejected."""

        def __init__(self):
            super().__init__(drift=0)
            self.rejection = None

        def createSimulation(self, scene, **kwargs):
            self.rejection = None
            try:
                return TableSimulation(scene, drift=0, **kwargs)
            except Exception as e:
                sim = getattr(e, "simulation", None)
                if sim is not None:
                    self.rejection = (type(e).__name__, str(e), sim.currentTime)
                raise

    _SIM = (TableSimulator, TableSimulation)
    return _SIM


class RunResult:
    __slots__ = ("accepted", "rejected_at", "reason", "kind", "reads", "log", "actions",
                 "end_time", "termination")

    def __init__(self):
        self.accepted = False
        self.rejected_at = None  # currentTime when the simulation was rejected
        self.reason = None
        self.kind = None  # exception class name of the rejection
        self.reads = []
        self.log = []
        self.actions = None  # per step: tuple of (object index, actions) for acting agents
        self.end_time = None
        self.termination = None

    def read_cells(self, phase="sim"):
        return [(n, s) for p, n, s in self.reads if p == phase]


_simulator = None


def simulator():
    global _simulator
    if _simulator is None:
        _simulator = _classes()[0]()
    return _simulator


def run(scene, table, max_steps, default=None):
    """Simulate `scene` once under `table`.  Never swallows anything but the documented
    rejection (Simulator.simulate returning None)."""
    set_table(table, default)
    sim = simulator()
    res = RunResult()
    simulation = sim.simulate(scene, maxSteps=max_steps, maxIterations=1, verbosity=0)
    res.reads = STATE.reads
    res.log = STATE.log
    if simulation is None:
        if sim.rejection is None:
            raise TableError("simulate returned None without a recorded rejection")
        res.kind, res.reason, res.rejected_at = sim.rejection
        return res
    res.accepted = True
    res.end_time = simulation.currentTime
    res.termination = str(simulation.result.terminationType)
    objs = list(scene.objects)
    acts = []
    for stepacts in simulation.result.actions:
        acts.append(tuple((objs.index(o), tuple(a)) for o, a in stepacts.items() if a))
    res.actions = tuple(acts)
    return res


def compile_scenario(source, **kwargs):
    import scenic

    return scenic.scenarioFromString(source, **kwargs)
